"""Process-global volatile state of the library = what a process restart resets.

At harness import (before any run) we snapshot
  * every module-level and class-level dict / list / set / ndarray of every `grid.*` module, and
  * every mutable default argument (list / dict / set / ndarray) of every function and method defined there,
and `restore()` puts their *contents* back in place.  Every simulated run starts with a restore (= a
fresh process), and the `restart` fault does the same in the middle of a run.  This keeps runs
independent of which runs a pool worker executed before (determinism) and makes the mutable default
`degrees=[50]` of AtomGrid part of the simulated state rather than a hidden leak.
"""

from __future__ import annotations

import copy
import functools
import hashlib
import importlib
import inspect
import pkgutil
import re
import types

import numpy as np

_SNAP = None
_MUTABLE = (dict, list, set)


def _modules():
    import grid

    mods = [grid]
    for m in pkgutil.iter_modules(grid.__path__):
        if m.name in ("tests", "data"):
            continue
        try:
            mods.append(importlib.import_module(f"grid.{m.name}"))
        except Exception:  # noqa: BLE001 - optional modules
            pass
    return mods


def _functions(mod):
    seen = set()
    for _, obj in vars(mod).items():
        if inspect.isfunction(obj) and obj.__module__ == mod.__name__:
            if id(obj) not in seen:
                seen.add(id(obj))
                yield obj
        elif inspect.isclass(obj) and obj.__module__ == mod.__name__:
            for _, member in vars(obj).items():
                f = member
                if isinstance(member, (staticmethod, classmethod)):
                    f = member.__func__
                elif isinstance(member, property):
                    f = member.fget
                if inspect.isfunction(f) and id(f) not in seen:
                    seen.add(id(f))
                    yield f


def snapshot():
    global _SNAP
    if _SNAP is not None:
        return _SNAP
    glob = []
    defaults = []
    scalars = []
    for mod in _modules():
        for name, val in list(vars(mod).items()):
            if name.startswith("__"):
                continue
            if isinstance(val, types.ModuleType) or inspect.isclass(val) or callable(val):
                continue
            if isinstance(val, _MUTABLE):
                glob.append((val, copy.deepcopy(val)))
            elif isinstance(val, np.ndarray):
                glob.append((val, val.copy()))
            elif val is None or isinstance(val, (int, float, str, bool, tuple)):
                if name.isupper() or name.startswith("_"):
                    scalars.append((mod, name, val))
        for _, cls in list(vars(mod).items()):
            if inspect.isclass(cls) and cls.__module__ == mod.__name__:
                for an, av in list(vars(cls).items()):
                    if an.startswith("__"):
                        continue
                    if isinstance(av, _MUTABLE):
                        glob.append((av, copy.deepcopy(av)))
                    elif isinstance(av, np.ndarray):
                        glob.append((av, av.copy()))
        for f in _functions(mod):
            for d in (f.__defaults__ or ()):
                if isinstance(d, _MUTABLE):
                    defaults.append((d, copy.deepcopy(d)))
                elif isinstance(d, np.ndarray):
                    defaults.append((d, d.copy()))
            for d in (f.__kwdefaults__ or {}).values():
                if isinstance(d, _MUTABLE):
                    defaults.append((d, copy.deepcopy(d)))
                elif isinstance(d, np.ndarray):
                    defaults.append((d, d.copy()))
    _SNAP = {"glob": glob, "defaults": defaults, "scalars": scalars}
    return _SNAP


def _same(live, saved):
    try:
        if isinstance(live, np.ndarray):
            return live.shape == saved.shape and bool(np.array_equal(live, saved, equal_nan=True))
        if isinstance(live, dict) and any(isinstance(v, (np.ndarray, tuple, list)) for v in live.values()):
            return len(live) == 0 and len(saved) == 0
        return type(live) is type(saved) and live == saved
    except Exception:  # noqa: BLE001
        return False


def _put_back(live, saved):
    if _same(live, saved):
        return
    if isinstance(live, dict):
        live.clear()
        live.update(copy.deepcopy(saved))
    elif isinstance(live, list):
        live[:] = copy.deepcopy(saved)
    elif isinstance(live, set):
        live.clear()
        live.update(copy.deepcopy(saved))
    elif isinstance(live, np.ndarray):
        if live.flags.writeable and live.shape == saved.shape:
            live[...] = saved


_DETACHED = []


def restore():
    """Fresh process: all volatile library state back to its import-time value."""
    snap = snapshot()
    for _, _, fn in _memo_functions():
        try:
            fn.cache_clear()
        except Exception:  # noqa: BLE001
            pass
    for live, saved in snap["glob"]:
        _put_back(live, saved)
    for live, saved in snap["defaults"]:
        _put_back(live, saved)
    for mod, name, val in snap["scalars"]:
        if getattr(mod, name, val) is not val:
            try:
                setattr(mod, name, val)
            except Exception:  # noqa: BLE001
                pass


    _apply_knobs(snap)


# ---- tuning knobs ------------------------------------------------------------------------------------------------
# Module-level integer constants that look like block / chunk / batch sizes are part of the simulated configuration: a
# result must not depend on them, so the simulator shrinks them per run (a block size of 2**17 hides the multi-block
# path from every workload of realistic size).  Only names that say "this is a chunking parameter" are touched.
_KNOB_NAME = re.compile(r"(BLOCK|CHUNK|BATCH)", re.IGNORECASE)
_KNOB_SEED = None
_KNOB_VALUES = (1, 2, 3, 5, 7, 11, 16)


def knobs(snap=None):
    snap = snap or snapshot()
    return [(mod, name, val) for mod, name, val in snap["scalars"] if isinstance(val, int) and not isinstance(val, bool) and val >= 8 and _KNOB_NAME.search(name)]


def set_knob_seed(seed):
    """Knob values for the runs from now on are a pure function of `seed` (None = the shipped values); applied by restore()."""
    global _KNOB_SEED
    _KNOB_SEED = seed
    return [f"{mod.__name__}.{name}={new}" for mod, name, new in _knob_plan(snapshot())]


def _knob_plan(snap):
    if _KNOB_SEED is None:
        return []
    plan = []
    for mod, name, val in knobs(snap):
        h = int.from_bytes(hashlib.sha256(f"knob:{_KNOB_SEED}:{mod.__name__}:{name}".encode()).digest()[:8], "big")
        if h % 4 == 0:
            continue  # a quarter of the runs keep the shipped value
        plan.append((mod, name, _KNOB_VALUES[(h // 4) % len(_KNOB_VALUES)]))
    return plan


def _apply_knobs(snap):
    for mod, name, new in _knob_plan(snap):
        try:
            setattr(mod, name, new)
        except Exception:  # noqa: BLE001
            pass


def describe():
    snap = snapshot()
    return {"module_containers": len(snap["glob"]), "mutable_defaults": len(snap["defaults"]), "module_scalars": len(snap["scalars"])}


def _memo_functions():
    """functools.lru_cache / functools.cache wrappers defined in the library (module level or on classes): volatile state
    like any other cache.  None on the pinned tree."""
    out = []
    for mod in _modules():
        for name, val in list(vars(mod).items()):
            if hasattr(val, "cache_clear") and hasattr(val, "__wrapped__") and getattr(val, "__module__", None) == mod.__name__:
                out.append((mod, name, val))
            elif inspect.isclass(val) and val.__module__ == mod.__name__:
                for an, av in list(vars(val).items()):
                    f = av.__func__ if isinstance(av, (staticmethod, classmethod)) else av
                    if hasattr(f, "cache_clear") and hasattr(f, "__wrapped__") and not isinstance(av, (staticmethod, classmethod)):
                        out.append((val, an, av))
    return out


def save_current():
    """Shallow copy of the current volatile state (to be put back with `load`).  Memoising wrappers are detached (a
    cold twin with an empty memo is installed in their place until `load`), so the warm memo survives untouched."""
    snap = snapshot()
    cur = []
    memo = []
    for owner, name, fn in _memo_functions():
        try:
            params = fn.cache_parameters() if hasattr(fn, "cache_parameters") else {"maxsize": 128, "typed": False}
            setattr(owner, name, functools.lru_cache(maxsize=params.get("maxsize"), typed=params.get("typed", False))(fn.__wrapped__))
            memo.append((owner, name, fn))
        except Exception:  # noqa: BLE001
            pass
    _DETACHED.append(memo)
    for live, _ in snap["glob"] + snap["defaults"]:
        if isinstance(live, dict):
            cur.append((live, dict(live)))
        elif isinstance(live, list):
            cur.append((live, list(live)))
        elif isinstance(live, set):
            cur.append((live, set(live)))
        elif isinstance(live, np.ndarray):
            cur.append((live, live.copy()))
    sc = [(mod, name, getattr(mod, name, None)) for mod, name, _ in snap["scalars"]]
    return cur, sc


def load(saved):
    cur, sc = saved
    if _DETACHED:
        for owner, name, fn in _DETACHED.pop():
            try:
                setattr(owner, name, fn)
            except Exception:  # noqa: BLE001
                pass
    for live, val in cur:
        if isinstance(live, dict):
            live.clear()
            live.update(val)
        elif isinstance(live, list):
            live[:] = val
        elif isinstance(live, set):
            live.clear()
            live.update(val)
        elif isinstance(live, np.ndarray):
            if live.flags.writeable and live.shape == val.shape:
                live[...] = val
    for mod, name, val in sc:
        try:
            setattr(mod, name, val)
        except Exception:  # noqa: BLE001
            pass
