"""Deterministic scheduler for caller threads (seam S11).

Real threads, exactly one runnable at any instant (baton passing over per-thread semaphores), pre-empted
only at `sys.settrace` line events inside the traced source files.  Which thread runs next is decided
by the schedule PRNG, or by an explicit schedule (list of [step, tid]) on replay; the GIL's own
switching can never matter because every other thread is parked on its semaphore.
"""

from __future__ import annotations

import random
import sys
import threading


class Scheduler:
    def __init__(
        self,
        n_threads: int,
        trace_files: tuple,
        sched_seed: int | None = None,
        explicit: list | None = None,
        p_switch: float = 0.02,
        p_hot: float = 0.25,
        hot_funcs: tuple = (),
        max_switches: int = 400,
    ):
        self.n = n_threads
        self.trace_files = tuple(trace_files)
        self.rng = random.Random(sched_seed) if explicit is None else None
        self.explicit = None if explicit is None else {int(s): int(t) for s, t in explicit}
        self.p_switch = p_switch
        self.p_hot = p_hot
        self.hot_funcs = frozenset(hot_funcs)
        self.max_switches = max_switches
        self.quiet = 0  # after a switch in a hot region: number of yield points during which the new thread keeps running
        # targeted pre-emption: at the k-th hot yield point of the run (k uniform), park the running thread and let the
        # other one run undisturbed.  Uniform over *positions* - a per-line coin would almost never get past the first
        # lines of a hot function - so every one-line window inside a hot function is hit with probability ~ 1/#lines.
        self.hot_count = 0
        self.hot_breaks = set()
        if self.rng is not None:
            self.hot_breaks = {self.rng.randrange(1, 90) for _ in range(self.rng.choice((1, 2, 3)))}
        self.sems = [threading.Semaphore(0) for _ in range(n_threads)]
        self.done = [False] * n_threads
        self.step = 0
        self.atomic_depth = 0  # >0: harness-internal section, no pre-emption
        self.switches = []  # recorded [step, to_tid]
        self.current = None
        self.errors = []
        self._tls = threading.local()
        self._match_cache = {}

    # -- decision ----------------------------------------------------------------------------
    def _others(self, tid):
        return [t for t in range(self.n) if t != tid and not self.done[t]]

    def _decide(self, tid, hot):
        """Return the tid to run next (== tid: keep running)."""
        s = self.step
        self.step += 1
        others = self._others(tid)
        if not others:
            return tid
        if self.explicit is not None:
            to = self.explicit.get(s)
            if to is None or to == tid:
                return tid
            if to not in others:
                to = others[0]
            return to
        if len(self.switches) >= self.max_switches:
            return tid
        if hot:
            self.hot_count += 1
            if self.hot_count in self.hot_breaks:
                self.quiet = 6000
                return others[self.rng.randrange(len(others))]
        if self.quiet > 0:
            # the thread that was switched to inside a hot region gets to finish what it is doing (e.g. build the
            # same grid) before the parked thread continues: this is what makes check-then-act windows observable
            self.quiet -= 1
            return tid
        p = self.p_hot if hot else self.p_switch
        if self.rng.random() < p:
            if hot:
                self.quiet = self.rng.choice((0, 0, 300, 1500, 4000))
            return others[self.rng.randrange(len(others))]
        return tid

    def _yield_point(self, tid, hot):
        if self.atomic_depth:
            return
        to = self._decide(tid, hot)
        if to != tid:
            self.switches.append([self.step - 1, to])
            self.current = to
            self.sems[to].release()
            self.sems[tid].acquire()

    # -- tracing -----------------------------------------------------------------------------
    def _wants(self, filename):
        r = self._match_cache.get(filename)
        if r is None:
            r = any(filename.endswith(sfx) for sfx in self.trace_files)
            self._match_cache[filename] = r
        return r

    def _make_tracer(self, tid):
        sched = self

        def local(frame, event, arg):
            if event == "line":
                sched._yield_point(tid, frame.f_code.co_name in sched.hot_funcs)
            return local

        def global_trace(frame, event, arg):
            if event == "call" and sched._wants(frame.f_code.co_filename):
                return local
            return None

        return global_trace

    # -- running -----------------------------------------------------------------------------
    def run(self, bodies):
        """Run the thread bodies (callables taking no args) to completion under the schedule."""
        assert len(bodies) == self.n
        threads = []

        def runner(tid, body):
            self.sems[tid].acquire()
            try:
                sys.settrace(self._make_tracer(tid))
                try:
                    body()
                finally:
                    sys.settrace(None)
            except BaseException as exc:  # noqa: BLE001 - reported to the engine as harness error
                self.errors.append((tid, repr(exc)))
            finally:
                self.done[tid] = True
                rest = [t for t in range(self.n) if not self.done[t]]
                if rest:
                    # thread end is a scheduling step like any other: recorded, replayable
                    s = self.step
                    self.step += 1
                    if self.rng is not None:
                        to = rest[self.rng.randrange(len(rest))]
                    else:
                        to = self.explicit.get(s, rest[0])
                        if to not in rest:
                            to = rest[0]
                    self.switches.append([s, to])
                    self.current = to
                    self.sems[to].release()
                else:
                    self.finished.set()

        self.finished = threading.Event()
        for tid, body in enumerate(bodies):
            th = threading.Thread(target=runner, args=(tid, body), name=f"sim-{tid}", daemon=True)
            threads.append(th)
            th.start()
        first = 0 if self.rng is None else self.rng.randrange(self.n)
        if self.explicit is not None:
            first = self.explicit.get(-1, 0) % self.n
        self.first = first
        self.current = first
        self.sems[first].release()
        self.finished.wait()
        for th in threads:
            th.join()
        return self.switches

    def explicit_schedule(self):
        """Schedule that replays this execution exactly (PRNG-free)."""
        return [[-1, self.first]] + [list(s) for s in self.switches]
