"""Caller memory and caller callbacks owned by the simulator (seams S9, S10).

Buf        - an array handed to the library in a chosen protection / layout mode, carved out of a larger
             backing store with canary margins; byte-snapshotted before the call and compared after.
Tracked*   - list/dict subclasses that log every mutating method call.
SimCallback- a user callback whose return *object* (fresh / its argument / a memoised array / read-only /
             view of a guarded buffer) and cancellation point are decided by the simulator; every array it
             returns is snapshotted at the moment it is returned.
"""

from __future__ import annotations

import copy
import hashlib

import numpy as np

MODES = ("plain", "readonly", "view", "strided", "fortran", "readonly-view", "readonly-strided")
CANARY = 7.25e11


class SimCancel(Exception):
    """Injected cancellation raised from inside a user callback."""


def _sig(a: np.ndarray):
    return (a.shape, a.strides, a.dtype.str, bool(a.flags.writeable), bool(a.flags.c_contiguous), bool(a.flags.f_contiguous))


def _hash_bytes(a: np.ndarray) -> str:
    return hashlib.sha256(np.ascontiguousarray(a).tobytes()).hexdigest()[:20]


class Buf:
    def __init__(self, name, values, mode):
        self.name = name
        self.mode = mode
        v = np.array(values)
        self.values = v.copy()
        ro = mode.startswith("readonly")
        layout = mode.replace("readonly-", "") if mode != "readonly" else "plain"
        if v.ndim == 0 or layout == "plain" or v.size == 0:
            self.base = v.copy()
            self.arr = self.base
            self.canary = None
        elif layout == "view":
            m = 3
            shape = (v.shape[0] + 2 * m,) + v.shape[1:]
            self.base = np.full(shape, CANARY if v.dtype.kind == "f" else 77, dtype=v.dtype)
            self.base[m:m + v.shape[0]] = v
            self.arr = self.base[m:m + v.shape[0]]
            self.canary = ("margin", m)
        elif layout == "strided":
            shape = (2 * v.shape[0] + 1,) + v.shape[1:]
            self.base = np.full(shape, CANARY if v.dtype.kind == "f" else 77, dtype=v.dtype)
            self.base[1::2] = v
            self.arr = self.base[1::2]
            self.canary = ("stride", 2)
        elif layout == "fortran":
            if v.ndim >= 2:
                self.base = np.asfortranarray(v.copy())
                self.arr = self.base
            else:
                self.base = v.copy()
                self.arr = self.base
            self.canary = None
        else:  # pragma: no cover
            raise ValueError(mode)
        if ro:
            self.arr.setflags(write=False)
        self.snap = None
        self.snapshot()

    def snapshot(self):
        self.snap = (_hash_bytes(self.base), _sig(self.arr), _hash_bytes(self.arr))

    def changed(self):
        """None if untouched, else a short description of what changed."""
        hb, sg, ha = self.snap
        if _sig(self.arr) != sg:
            return f"array metadata changed {sg} -> {_sig(self.arr)}"
        if _hash_bytes(self.arr) != ha:
            with np.errstate(all="ignore"):
                try:
                    n = int(np.sum(~((self.arr == self.values) | ((self.arr != self.arr) & (self.values != self.values)))))
                except Exception:  # noqa: BLE001
                    n = -1
            return f"{n} element(s) of the caller's array changed"
        if _hash_bytes(self.base) != hb:
            return "memory next to the caller's view (canary) changed"
        return None


_MUTATORS_LIST = ("append", "extend", "insert", "remove", "pop", "clear", "sort", "reverse", "__setitem__", "__delitem__", "__iadd__", "__imul__")
_MUTATORS_DICT = ("__setitem__", "__delitem__", "pop", "popitem", "clear", "update", "setdefault", "__ior__")


def _logged(cls_base, name):
    orig = getattr(cls_base, name)

    def method(self, *a, **k):
        self._mutations.append(name)
        return orig(self, *a, **k)

    method.__name__ = name
    return method


class TrackedList(list):
    def __init__(self, *a):
        super().__init__(*a)
        self._mutations = []


class TrackedDict(dict):
    def __init__(self, *a, **k):
        super().__init__(*a, **k)
        self._mutations = []


for _n in _MUTATORS_LIST:
    setattr(TrackedList, _n, _logged(list, _n))
for _n in _MUTATORS_DICT:
    setattr(TrackedDict, _n, _logged(dict, _n))


class Container:
    """A list/dict argument: tracked subclass or plain, deep-snapshotted either way."""

    def __init__(self, name, value, tracked):
        self.name = name
        self.tracked = tracked
        if isinstance(value, dict):
            self.obj = TrackedDict(value) if tracked else dict(value)
        elif isinstance(value, tuple):
            self.obj = tuple(value)
        else:
            self.obj = TrackedList(value) if tracked else list(value)
        self.snap = _snapshot(self.obj)

    def changed(self):
        if not _deep_equal(_plain(self.obj), self.snap):
            how = f" via {sorted(set(self.obj._mutations))}" if self.tracked and getattr(self.obj, "_mutations", None) else ""
            return "contents of the caller's container changed" + how
        return None

    def transient_mutations(self):
        """Mutating calls that left the contents unchanged (allowed by the property; reported as a probe)."""
        return list(getattr(self.obj, "_mutations", []) or []) if self.tracked else []


def _snapshot(o):
    """Structural copy: containers and arrays are copied, opaque objects (grids, callables) kept by reference."""
    if isinstance(o, dict):
        return {k: _snapshot(v) for k, v in o.items()}
    if isinstance(o, (list, tuple)):
        return [_snapshot(v) for v in o]
    if isinstance(o, np.ndarray):
        return o.copy()
    return o


def _plain(o):
    if isinstance(o, dict):
        return {k: _plain(v) for k, v in o.items()}
    if isinstance(o, (list, tuple)):
        return [_plain(v) for v in o]
    return o


def _deep_equal(a, b):
    if isinstance(a, dict) and isinstance(b, dict):
        return a.keys() == b.keys() and all(_deep_equal(a[k], b[k]) for k in a)
    if isinstance(a, (list, tuple)) and isinstance(b, (list, tuple)):
        return len(a) == len(b) and all(_deep_equal(x, y) for x, y in zip(a, b))
    if isinstance(a, np.ndarray) or isinstance(b, np.ndarray):
        try:
            return bool(np.array_equal(np.asarray(a), np.asarray(b), equal_nan=True))
        except Exception:  # noqa: BLE001
            return False
    if callable(a) or callable(b):
        return a is b
    if not isinstance(a, (int, float, str, bool, complex, type(None), np.generic)):
        return a is b
    try:
        return bool(a == b) or (a != a and b != b)
    except Exception:  # noqa: BLE001
        return a is b


CB_BEHAVIOURS = ("fresh", "alias-arg", "memo", "readonly", "guarded-view", "memo-readonly", "reentrant")


class SimCallback:
    """Callable handed to the library as fx / coefficient / integrand / weight function.

    fn(*args) computes the true value.  `identity` = the true value *is* the first argument (f(x) = x),
    which is the only case in which 'return the very array received' is a legal behaviour.
    """

    side_effect = None  # set by the engine: what a "reentrant" callback does with the library while it is being called

    def __init__(self, name, fn, behaviour="fresh", raise_at=None, identity=False):
        self.name = name
        self.fn = fn
        self.behaviour = behaviour
        self.raise_at = raise_at
        self.identity = identity
        self.calls = 0
        self.returned = []  # (array object, hash at return time, base array or None, base hash)
        self.memo = {}
        self.arg_snaps = []

    def __call__(self, *args, **kwargs):
        k = self.calls
        self.calls += 1
        if self.raise_at is not None and k == self.raise_at:
            raise SimCancel(f"{self.name}@{k}")
        b = self.behaviour
        if b == "reentrant" and SimCallback.side_effect is not None and k % 5 == 0:
            SimCallback.side_effect()  # the caller's callback uses the library itself, in the middle of the library's call
        if b == "alias-arg" and self.identity and isinstance(args[0], np.ndarray):
            out = args[0]
            # the argument belongs to the library/SciPy; we only record that aliasing happened
            self.returned.append((None, None, None, None))
            return out
        if b in ("memo", "memo-readonly"):
            key = tuple((np.asarray(a).tobytes(), np.asarray(a).shape) if isinstance(a, (np.ndarray, float, int)) else id(a) for a in args)
            if key in self.memo:
                return self.memo[key]
            val = np.array(self.fn(*args, **kwargs))
            if b == "memo-readonly" and isinstance(val, np.ndarray):
                val.setflags(write=False)
            self.memo[key] = val
            self.returned.append((val, _hash_bytes(val), None, None))
            return val
        val = self.fn(*args, **kwargs)
        if not isinstance(val, np.ndarray):
            return val
        val = np.array(val)
        if b == "readonly":
            val.setflags(write=False)
            self.returned.append((val, _hash_bytes(val), None, None))
        elif b == "guarded-view" and val.ndim >= 1 and val.size:
            m = 2
            base = np.full((val.shape[0] + 2 * m,) + val.shape[1:], CANARY, dtype=val.dtype)
            base[m:m + val.shape[0]] = val
            val = base[m:m + val.shape[0]]
            self.returned.append((val, _hash_bytes(val), base, _hash_bytes(base)))
        else:
            self.returned.append((val, _hash_bytes(val), None, None))
        return val

    def changed(self):
        for i, (arr, h, base, hb) in enumerate(self.returned):
            if arr is None:
                continue
            if _hash_bytes(arr) != h:
                return f"array returned by callback {self.name} (invocation record {i}, behaviour {self.behaviour}) was modified after it was returned"
            if base is not None and _hash_bytes(base) != hb:
                return f"memory next to the array returned by callback {self.name} was modified"
        return None
