"""Delta-debugging over operation / fault / schedule lists, with an execution budget."""

from __future__ import annotations

import copy
import time


class Budget:
    def __init__(self, max_execs: int, max_wall_s: float):
        self.max_execs = max_execs
        self.deadline = time.monotonic() + max_wall_s
        self.execs = 0

    def ok(self) -> bool:
        return self.execs < self.max_execs and time.monotonic() < self.deadline


def ddmin_list(items: list, test, budget: Budget) -> list:
    """Smallest sublist (1-minimal if budget allows) for which test(sublist) is True.

    `test(items)` must already be True for the full list.
    """
    items = list(items)
    n = 2
    while len(items) >= 1 and budget.ok():
        chunk = max(1, len(items) // n)
        reduced = False
        # try removing each chunk (complement test)
        i = 0
        while i < len(items) and budget.ok():
            cand = items[:i] + items[i + chunk:]
            budget.execs += 1
            if test(cand):
                items = cand
                n = max(n - 1, 2)
                reduced = True
            else:
                i += chunk
        if not reduced:
            if chunk == 1:
                break
            n = min(len(items), n * 2)
    return items


def get_path(spec, path):
    o = spec
    for p in path:
        o = o[p]
    return o


def set_path(spec, path, value):
    o = spec
    for p in path[:-1]:
        o = o[p]
    o[path[-1]] = value


def minimise(spec: dict, list_paths, simplify, fails, max_execs=400, max_wall_s=90.0):
    """Shrink `spec` while `fails(spec)` stays True.

    list_paths(spec) -> paths of lists to ddmin;  simplify(spec) -> iterable of simpler candidate specs.
    Returns (minimised spec, executions used).
    """
    budget = Budget(max_execs, max_wall_s)
    spec = copy.deepcopy(spec)
    progress = True
    rounds = 0
    while progress and budget.ok() and rounds < 6:
        progress = False
        rounds += 1
        for path in list_paths(spec):
            cur = get_path(spec, path)
            if not isinstance(cur, list) or not cur:
                continue

            def test(cand, path=path):
                s2 = copy.deepcopy(spec)
                set_path(s2, path, cand)
                return fails(s2)

            new = ddmin_list(cur, test, budget)
            if len(new) < len(cur):
                set_path(spec, path, new)
                progress = True
        # argument simplification: greedy first-improvement passes
        improved = True
        while improved and budget.ok():
            improved = False
            for cand in simplify(spec):
                if not budget.ok():
                    break
                budget.execs += 1
                if fails(cand):
                    spec = copy.deepcopy(cand)
                    improved = True
                    progress = True
                    break
    return spec, budget.execs
