"""Seeds, digests, event log, violation records.

Nothing in here reads a clock or draws from a PRNG: logging must never perturb a run.
"""

from __future__ import annotations

import hashlib
import json
import random

import numpy as np

MASK63 = (1 << 63) - 1


def derive_seed(base: int, *labels) -> int:
    """seed_i = H(base, labels...) -> 63-bit integer (stable across processes / hash seeds)."""
    h = hashlib.sha256()
    h.update(str(int(base)).encode())
    for lab in labels:
        h.update(b"\x00")
        h.update(str(lab).encode())
    return int.from_bytes(h.digest()[:8], "big") & MASK63


def rng_for(seed: int) -> random.Random:
    return random.Random(int(seed))


def hash_array(a) -> str:
    """sha256 over dtype, shape and raw bytes of an array-like (C order)."""
    a = _canon(np.asarray(a))
    h = hashlib.sha256()
    h.update(str(a.dtype).encode())
    h.update(str(a.shape).encode())
    h.update(np.ascontiguousarray(a).tobytes())
    return h.hexdigest()[:16]


def _canon(a):
    """x87 long doubles carry 6 uninitialised padding bytes: hash their float64 image instead."""
    if a.dtype == np.longdouble and np.dtype(np.longdouble).itemsize > 8:
        return a.astype(np.float64)
    if a.dtype == np.clongdouble:
        return a.astype(np.complex128)
    return a


def hash_obj(o) -> str:
    """Stable short hash of nested python/numpy values."""
    h = hashlib.sha256()
    _feed(h, o)
    return h.hexdigest()[:16]


def _feed(h, o):
    if isinstance(o, np.ndarray):
        o = _canon(o)
        h.update(b"A")
        h.update(str(o.dtype).encode())
        h.update(str(o.shape).encode())
        h.update(np.ascontiguousarray(o).tobytes())
    elif isinstance(o, (list, tuple)):
        h.update(b"L%d" % len(o))
        for x in o:
            _feed(h, x)
    elif isinstance(o, dict):
        h.update(b"D%d" % len(o))
        for k in sorted(o, key=str):
            _feed(h, str(k))
            _feed(h, o[k])
    elif isinstance(o, (np.generic,)):
        _feed(h, np.asarray(o))
    elif isinstance(o, float):
        h.update(b"F" + np.float64(o).tobytes())
    else:
        h.update(repr(o).encode())


class EventLog:
    """Append-only log of what happened in a run; its hash is the run digest."""

    __slots__ = ("lines", "keep")

    def __init__(self, keep: bool = True):
        self.lines = []
        self.keep = keep

    def add(self, *fields):
        self.lines.append("|".join(str(f) for f in fields))

    def digest(self) -> str:
        h = hashlib.sha256()
        for ln in self.lines:
            h.update(ln.encode())
            h.update(b"\n")
        return h.hexdigest()


class Violation(dict):
    """A property violation observed in a run.

    cls  - invariant id + operation kind (what minimisation must preserve)
    key  - cls plus the specific call-site / input signature (what known-findings match on)
    """

    def __init__(self, cls: str, key: str, detail: str, step: int):
        super().__init__(cls=cls, key=key, detail=str(detail)[:600], step=int(step))


class HarnessError(Exception):
    """Something is wrong with the machinery (never reported as a VIOLATION)."""


def jdump(o) -> str:
    return json.dumps(o, sort_keys=True, default=_json_default)


def _json_default(o):
    if isinstance(o, np.ndarray):
        return o.tolist()
    if isinstance(o, np.generic):
        return o.item()
    if isinstance(o, (set, frozenset)):
        return sorted(o)
    raise TypeError(f"not JSON serialisable: {type(o)}")


class Counter(dict):
    def hit(self, name, n=1):
        self[name] = self.get(name, 0) + n


def merge_counts(dst: dict, src: dict):
    for k, v in src.items():
        dst[k] = dst.get(k, 0) + v


def library_raised(exc):
    """True if `exc` came out of library code that the harness called directly (a read of a public attribute, a
    conversion of a returned object) rather than out of the harness itself: the deepest harness frame of the traceback
    is followed by a frame inside the `grid` package."""
    import os

    import grid

    lib = os.path.dirname(os.path.abspath(grid.__file__)) + os.sep
    here = os.path.dirname(os.path.dirname(os.path.abspath(__file__))) + os.sep
    frames = []
    tb = exc.__traceback__
    while tb is not None:
        frames.append(os.path.abspath(tb.tb_frame.f_code.co_filename))
        tb = tb.tb_next
    last_h = max((i for i, f in enumerate(frames) if f.startswith(here)), default=-1)
    return last_h >= 0 and last_h + 1 < len(frames) and frames[last_h + 1].startswith(lib)
