"""Object-identity reuse as a simulator-controlled event.

CPython may hand a new object the address (`id`) of an object that was just released.  Whether that happens
normally depends on allocator state, i.e. on timing and history the library does not control.  The simulator
makes it an explicit, (near-)deterministic event: release the old object at a chosen moment, then steer the
small-object allocator (by holding filler instances of the same size class) until the released block is the
next one to be handed out, and build the new object exactly then.
"""

from __future__ import annotations


class _Filler:
    pass


def build_at_released_address(target_id, cls, args, kwargs, cap=300000):
    """Build cls(*args, **kwargs); try to make it land on `target_id` (the id of an object released just before).

    Returns (object, landed: bool).  Never fails: if the block cannot be reached within `cap` fillers the
    object is simply built wherever the allocator puts it.
    """
    if target_id is None:
        return cls(*args, **kwargs), False
    # The real constructor runs exactly ONCE (it may have side effects on its arguments if the library is broken):
    # only throw-away fillers are used to walk the allocator to the released block.
    keep = []
    for _ in range(cap):
        f = _Filler()
        if id(f) == target_id:
            del f
            obj = cls(*args, **kwargs)
            landed = id(obj) == target_id
            keep.clear()
            return obj, landed
        keep.append(f)
    keep.clear()
    return cls(*args, **kwargs), False
