"""Simulated package-data store (seam S2).

`grid.angular.files`, `grid.atomgrid.files`, `grid.coulomb.files`, `grid.hirshfeld.files` are module
level names (``from importlib.resources import files``).  The simulator replaces them with
`SimStore.files`, whose ``joinpath()`` returns an in-memory, fault-injecting file serving the *real*
bytes of the real data files below /repo/src/grid/data.  ``np.load``/``zipfile``/``json.load`` run for
real on the bytes it serves.

Fault kinds (a fault is counted when it *fires*, not when it is armed):
  eio      OSError(EIO) at the k-th read() of the handle
  enomem   MemoryError at the k-th read()
  enoent   FileNotFoundError at the first access
  short    file truncated to a prefix
  bitflip  one stored byte has one bit flipped
A `short`/`bitflip` fault is classified when armed by parsing the faulted bytes *independently of
grid* (np.load / json.loads on a BytesIO): it is injected only if it is detectable (parser raises) or
harmless (parse equals pristine).  A silently-wrong stored file is not something the library could
notice, so it is never injected (sound oracle: "raise or pristine").
"""

from __future__ import annotations

import errno
import io
import json
import os
import threading

import numpy as np

_PKG_PREFIX = "grid.data"
_BYTES_CACHE: dict = {}


def data_root() -> str:
    import grid

    return os.path.join(os.path.dirname(os.path.abspath(grid.__file__)), "data")


def pristine_bytes(package: str, name: str) -> bytes:
    """Real bytes of the real shipped file (read once per process)."""
    key = (package, name)
    b = _BYTES_CACHE.get(key)
    if b is None:
        if not package.startswith(_PKG_PREFIX):
            raise FileNotFoundError(package)
        sub = package[len(_PKG_PREFIX):].lstrip(".").replace(".", os.sep)
        path = os.path.join(data_root(), sub, name)
        with open(path, "rb") as fh:
            b = fh.read()
        _BYTES_CACHE[key] = b
    return b


def _parse_independent(name: str, data: bytes):
    """Parse bytes without grid: returns a comparable python object, or raises."""
    if name.endswith(".json"):
        return json.loads(data.decode("utf-8"))
    with np.load(io.BytesIO(data)) as npz:
        return {k: (npz[k].dtype.str, npz[k].shape, npz[k].tobytes()) for k in npz.files}


class SimFile:
    """One open handle.  Binary, seekable, read-only; also usable through .open() as text."""

    def __init__(self, store, package, name, data, fault):
        self._store = store
        self._package = package
        self._name = name
        self._data = data
        self._pos = 0
        self._fault = fault  # dict or None
        self._nread = 0
        self.closed = False

    # --- traversable-ish API used by grid -------------------------------------------------
    @property
    def name(self):
        return self._name

    def joinpath(self, *parts):
        return self._store._open(self._package, "/".join((self._name,) + parts))

    def open(self, mode="r", *args, **kwargs):
        self._maybe_fire_open()
        if "b" in mode:
            return self
        enc = kwargs.get("encoding") or "utf-8"
        return io.TextIOWrapper(_Raw(self), encoding=enc)

    # --- file API --------------------------------------------------------------------------
    def _maybe_fire_open(self):
        f = self._fault
        if f is not None and f["kind"] == "enoent":
            self._store._fired("enoent", self._name)
            raise FileNotFoundError(errno.ENOENT, "simulated: no such file", self._name)

    def read(self, n=-1):
        self._maybe_fire_open()
        f = self._fault
        if f is not None and f["kind"] in ("eio", "enomem"):
            if self._nread == f["k"]:
                self._nread += 1
                self._store._fired(f["kind"], self._name)
                if f["kind"] == "eio":
                    raise OSError(errno.EIO, "simulated: input/output error", self._name)
                raise MemoryError("simulated: cannot allocate read buffer")
        self._nread += 1
        if f is not None and f["kind"] in ("short", "bitflip") and not f.get("_counted"):
            f["_counted"] = True
            self._store._fired(f["kind"], self._name)
        if n is None or n < 0:
            out = self._data[self._pos:]
        else:
            out = self._data[self._pos:self._pos + n]
        self._pos += len(out)
        return out

    def readinto(self, b):
        data = self.read(len(b))
        b[: len(data)] = data
        return len(data)

    def seek(self, off, whence=0):
        if whence == 0:
            self._pos = off
        elif whence == 1:
            self._pos += off
        else:
            self._pos = len(self._data) + off
        self._pos = max(0, self._pos)
        return self._pos

    def tell(self):
        return self._pos

    def seekable(self):
        return True

    def readable(self):
        return True

    def writable(self):
        return False

    def close(self):
        self.closed = True

    def flush(self):
        pass

    def __enter__(self):
        return self

    def __exit__(self, *exc):
        self.close()
        return False


class _Raw(io.RawIOBase):
    def __init__(self, sf):
        self._sf = sf

    def readable(self):
        return True

    def readinto(self, b):
        return self._sf.readinto(b)


class _Pkg:
    def __init__(self, store, package):
        self._store = store
        self._package = package

    def joinpath(self, *parts):
        return self._store._open(self._package, "/".join(parts))

    def __truediv__(self, part):
        return self.joinpath(part)


class SimStore:
    """The fault-injecting store.  `armed` faults are consumed by matching opens."""

    def __init__(self, counters, log=None):
        self.counters = counters  # core.Counter: fired faults
        self.armed = []  # list of fault dicts
        self.opens = 0
        self.log = log
        self.opened_names = []
        self.fired_log = []  # (kind, file name, thread ident)

    # seam entry point (replaces importlib.resources.files)
    def files(self, package):
        return _Pkg(self, package)

    def arm(self, kind, match, k, count, frac):
        """Arm a fault for the next `count` opens whose file name contains `match` ('' = any)."""
        self.armed.append({"kind": kind, "match": match, "k": int(k), "count": int(count), "frac": float(frac)})

    def heal(self):
        n = len(self.armed)
        self.armed = []
        return n

    def active(self):
        return bool(self.armed)

    def _fired(self, kind, name):
        self.counters.hit("fault:" + kind)
        self.fired_log.append((kind, name, threading.get_ident()))
        if self.log is not None:
            self.log.add("fault", kind, name)

    def _open(self, package, name):
        self.opens += 1
        self.opened_names.append(name)
        data = pristine_bytes(package, name)
        fault = None
        for f in self.armed:
            if f["count"] > 0 and f["match"] in name:
                f["count"] -= 1
                fault = dict(f)
                break
        self.armed = [f for f in self.armed if f["count"] > 0]
        if fault is not None and fault["kind"] in ("short", "bitflip"):
            data2 = self._mutate(data, fault)
            verdict = self._classify(name, data, data2)
            if verdict == "silent":
                # not injectable soundly; serve pristine bytes
                self.counters.hit("fault-skipped:" + fault["kind"] + "-silent")
                fault = None
            else:
                self.counters.hit("fault-class:" + fault["kind"] + "-" + verdict)
                data = data2
        return SimFile(self, package, name, data, fault)

    @staticmethod
    def _mutate(data, fault):
        n = len(data)
        if fault["kind"] == "short":
            cut = int(fault["frac"] * n)
            cut = min(max(cut, 0), n - 1)
            return data[:cut]
        pos = min(int(fault["frac"] * n), n - 1)
        bit = fault["k"] % 8
        b = bytearray(data)
        b[pos] ^= 1 << bit
        return bytes(b)

    @staticmethod
    def _classify(name, pristine, faulted):
        try:
            got = _parse_independent(name, faulted)
        except BaseException:  # noqa: BLE001 - any parser failure means "detectable"
            return "detectable"
        try:
            want = _parse_independent(name, pristine)
        except BaseException:  # noqa: BLE001
            return "silent"
        return "harmless" if got == want else "silent"


SEAM_MODULES = ("grid.angular", "grid.atomgrid", "grid.coulomb", "grid.hirshfeld")


class StoreSeam:
    """Context manager installing a SimStore at the four `files` seams."""

    def __init__(self, store):
        self.store = store
        self._saved = {}

    def __enter__(self):
        import importlib

        for modname in SEAM_MODULES:
            mod = importlib.import_module(modname)
            if not hasattr(mod, "files"):
                raise RuntimeError(f"seam missing: {modname}.files")
            self._saved[modname] = (mod, mod.files)
            mod.files = self.store.files
        return self.store

    def __exit__(self, *exc):
        for mod, orig in self._saved.values():
            mod.files = orig
        return False
