"""Batch runner: fan seeds out over processes, prove determinism, minimise, replay, write evidence.

Exit codes of a check:  0 = property held on everything explored;  1 = VIOLATION (with replay file);
2 = harness problem (nondeterminism, timeout, crashed worker, exception in the machinery) - never 0.
"""

from __future__ import annotations

import copy
import faulthandler
import hashlib
import json
import multiprocessing as mp
import os
import signal
import subprocess
import sys
import time
import traceback
from concurrent.futures import ProcessPoolExecutor

from . import ddmin, findings, procstate
from .core import HarnessError, derive_seed, jdump, merge_counts

RUN_TIMEOUT_S = 120


class _RunTimeout(Exception):
    pass


def _on_alarm(signum, frame):
    raise _RunTimeout()


_ENGINE = None
_KNOWN = None


def _init_worker(engine_factory, known_keys):
    global _ENGINE, _KNOWN
    _ENGINE = engine_factory()
    _KNOWN = known_keys
    signal.signal(signal.SIGALRM, _on_alarm)


def run_spec(engine, spec, known_keys, timeout=None):
    """Execute one spec with a wall-clock guard; never raises for engine-level problems."""
    if timeout is None:
        timeout = getattr(engine, "RUN_TIMEOUT_S", RUN_TIMEOUT_S)
    signal.signal(signal.SIGALRM, _on_alarm)
    signal.alarm(timeout)
    faulthandler.dump_traceback_later(timeout + 30, exit=True)
    shrunk = procstate.set_knob_seed(spec.get("seed"))  # block / chunk sizes of the library are per-run configuration
    try:
        res = engine.execute(spec, known_keys)
        res.setdefault("error", None)
        for k in shrunk:
            res.setdefault("faults", {})["knob:" + k.split("=")[0]] = 1
    except _RunTimeout:
        res = _blank_result()
        res["error"] = "timeout"
    except BaseException as exc:  # noqa: BLE001 - classified as harness error by the caller
        res = _blank_result()
        res["error"] = "harness-exception: " + "".join(
            traceback.format_exception(type(exc), exc, exc.__traceback__)
        )[-3000:]
    finally:
        signal.alarm(0)
        faulthandler.cancel_dump_traceback_later()
        procstate.set_knob_seed(None)
    return res


def _blank_result():
    return {
        "digest": "",
        "violations": [],
        "known_hits": [],
        "faults": {},
        "probes": {},
        "states": [],
        "nontrivial": False,
        "steps": 0,
        "n_ops": 0,
    }


def _job(args):
    idx, seed, submode, want_spec = args
    try:
        spec = _ENGINE.generate(seed, submode)
    except BaseException as exc:  # noqa: BLE001
        res = _blank_result()
        res["error"] = "harness-exception(generate): " + "".join(
            traceback.format_exception(type(exc), exc, exc.__traceback__)
        )[-3000:]
        res.update(idx=idx, seed=seed, submode=submode, spec=None)
        return res
    res = run_spec(_ENGINE, spec, _KNOWN)
    res.update(idx=idx, seed=seed, submode=submode)
    res["spec"] = spec if (want_spec or res["violations"] or res["error"]) else None
    return res


def run_batch(engine_factory, known_keys, jobs_list, n_workers, chunksize=4):
    """jobs_list: [(idx, seed, submode, want_spec)] -> list of results in idx order."""
    ctx = mp.get_context("fork")
    out = []
    with ProcessPoolExecutor(
        max_workers=n_workers, mp_context=ctx, initializer=_init_worker, initargs=(engine_factory, known_keys)
    ) as ex:
        for res in ex.map(_job, jobs_list, chunksize=chunksize):
            out.append(res)
    return out


# --------------------------------------------------------------------------------------------------


def plan_jobs(engine, tier, base_seed, n_override=None, sample_specs=3):
    jobs = []
    idx = 0
    for submode, n in engine.submodes(tier):
        if n_override is not None:
            n = max(1, int(n * n_override))
        for i in range(n):
            seed = derive_seed(base_seed, engine.NAME, submode, i)
            jobs.append((idx, seed, submode, i < sample_specs))
            idx += 1
    return jobs


def digests_for(engine_factory, known_keys, jobs, n_workers):
    res = run_batch(engine_factory, known_keys, jobs, n_workers)
    return {r["idx"]: (r["digest"], r["error"]) for r in res}


def fresh_interpreter_digests(property_id, tier, base_seed, idxs, hashseed, scale=None):
    """Re-run the given job indices in a brand-new interpreter under another PYTHONHASHSEED."""
    env = dict(os.environ)
    env["PYTHONHASHSEED"] = str(hashseed)
    env["VERIF_SEED"] = str(base_seed)
    cmd = [
        sys.executable,
        "-W",
        "ignore",
        os.path.join(findings.root(), "bin", "_main.py"),
        property_id,
        "--tier",
        tier,
        "--digests",
        ",".join(str(i) for i in idxs),
    ]
    if scale is not None:
        cmd += ["--scale", repr(float(scale))]
    p = subprocess.run(cmd, env=env, capture_output=True, text=True, timeout=1800)
    if p.returncode != 0:
        raise HarnessError(f"fresh-interpreter digest run failed rc={p.returncode}: {p.stderr[-2000:]}")
    line = [ln for ln in p.stdout.splitlines() if ln.startswith("DIGESTS ")][-1]
    d = json.loads(line[len("DIGESTS "):])
    return {int(k): tuple(v) for k, v in d.items()}


def minimise_violation(engine, spec, target_cls, known_keys, max_execs, max_wall_s):
    def fails(s):
        r = run_spec(engine, s, known_keys, timeout=60)
        if r["error"]:
            return False
        return any(v["cls"] == target_cls and v["key"] not in known_keys for v in r["violations"])

    return ddmin.minimise(spec, engine.list_paths, engine.simplify, fails, max_execs=max_execs, max_wall_s=max_wall_s)


def write_replay(property_id, engine, spec, violation, digest, base_seed):
    d = os.path.join(findings.replay_dir(), property_id)
    os.makedirs(d, exist_ok=True)
    tag = hashlib.sha256(violation["cls"].encode()).hexdigest()[:6]
    path = os.path.join(d, f"{spec.get('seed', 0)}-{tag}.json")
    doc = {
        "property": property_id,
        "engine": engine.NAME,
        "base_seed": base_seed,
        "spec": spec,
        "expected": {"cls": violation["cls"], "key": violation["key"], "detail": violation["detail"]},
        "digest": digest,
    }
    with open(path, "w") as fh:
        fh.write(jdump(doc))
        fh.write("\n")
    return path


def replay_file(engine, path, known_keys):
    with open(path) as fh:
        doc = json.load(fh)
    res = run_spec(engine, doc["spec"], known_keys, timeout=max(300, getattr(engine, "RUN_TIMEOUT_S", 300)))
    exp = doc["expected"]
    same_cls = any(v["cls"] == exp["cls"] for v in res["violations"])
    same_digest = res["digest"] == doc["digest"]
    return doc, res, same_cls, same_digest


def replay_in_fresh_process(property_id, path):
    cmd = [sys.executable, "-W", "ignore", os.path.join(findings.root(), "bin", "_main.py"), property_id, "--replay", path]
    p = subprocess.run(cmd, capture_output=True, text=True, timeout=900)
    return p.returncode, p.stdout, p.stderr


def run_check(engine_factory, property_id, tier, base_seed, n_workers=None, scale=None):
    t0 = time.time()
    engine = engine_factory()
    known, fixed = findings.load(property_id)
    known_keys = frozenset(known)
    n_workers = n_workers or min(16, os.cpu_count() or 4)
    jobs = plan_jobs(engine, tier, base_seed, scale)
    print(f"[{property_id}] engine={engine.NAME} tier={tier} VERIF_SEED={base_seed} runs={len(jobs)} workers={n_workers}", flush=True)

    # ---- main batch (= determinism pass A) -----------------------------------------------------
    results = run_batch(engine_factory, known_keys, jobs, n_workers)
    t_batch = time.time() - t0
    errors = [r for r in results if r["error"]]
    if errors:
        for r in errors[:3]:
            print(f"HARNESS-ERROR property={property_id} seed={r['seed']} submode={r['submode']}: {r['error']}", flush=True)
        if not any(r["violations"] for r in results):
            _write_evidence(engine, property_id, tier, base_seed, results, t0, det=None, note="harness errors", n_viol=0)
            return 2
        # some runs were inconclusive (timeout / harness exception) but others show a violation: report it
        print(f"[{property_id}] {len(errors)} run(s) inconclusive; continuing with the violations found in the others", flush=True)
        inconclusive = len(errors)
    else:
        inconclusive = 0

    # ---- determinism self-test -----------------------------------------------------------------
    n_det = engine.determinism_sample(tier)
    ok_idx = [i for i, r in enumerate(results) if not r["error"]]
    step = max(1, len(ok_idx) // n_det)
    det_idx = [ok_idx[k] for k in range(0, len(ok_idx), step)][:n_det]
    det_jobs = [(jobs[i][0], jobs[i][1], jobs[i][2], False) for i in det_idx]
    pass_b_results = run_batch(engine_factory, known_keys, det_jobs, max(2, (2 * n_workers) // 3))
    pass_b = {r["idx"]: (r["digest"], r["error"]) for r in pass_b_results}
    fresh_n = max(4, len(det_idx) // 4)
    pass_c = fresh_interpreter_digests(property_id, tier, base_seed, det_idx[:fresh_n], hashseed=4242, scale=scale)
    mismatches = []
    for i in det_idx:
        a = results[i]["digest"]
        if pass_b[i][0] != a:
            mismatches.append((i, "second run / other worker count"))
        if i in pass_c and pass_c[i][0] != a:
            mismatches.append((i, "fresh interpreter / other PYTHONHASHSEED"))
    det = {
        "seeds_run_twice": len(det_idx),
        "worker_counts": [n_workers, max(2, (2 * n_workers) // 3)],
        "fresh_interpreter_seeds": len(pass_c),
        "other_pythonhashseed": 4242,
        "mismatches": len(mismatches),
    }
    if inconclusive:
        det["inconclusive_runs"] = inconclusive
    nondeterministic = bool(mismatches)
    extra = [r for r in pass_b_results if r["violations"] and not r["error"]] if nondeterministic else []
    if nondeterministic and not any(r["violations"] for r in results) and not extra:
        for i, why in mismatches[:5]:
            print(f"HARNESS-NONDETERMINISM property={property_id} seed={jobs[i][1]} submode={jobs[i][2]} ({why})", flush=True)
        _write_evidence(engine, property_id, tier, base_seed, results, t0, det=det, note="nondeterminism", n_viol=0)
        return 2
    if nondeterministic:
        # some execution shows a violation: it is only believed if its minimised replay reproduces in a fresh process
        print(f"[{property_id}] {len(mismatches)} digest mismatch(es) between repeated executions; violations below are reported only if their replay reproduces", flush=True)

    # ---- violations ----------------------------------------------------------------------------
    known_hit = {}
    unknown = {}
    for r in list(results) + extra:
        for k in r["known_hits"]:
            known_hit[k] = known_hit.get(k, 0) + 1
        for v in r["violations"]:
            if v["key"] in known_keys:
                known_hit[v["key"]] = known_hit.get(v["key"], 0) + 1
            else:
                unknown.setdefault(v["cls"], []).append((r, v))
    for k, f in known.items():
        hits = known_hit.get(k, 0)
        print(f"KNOWN-FINDING: property={property_id} {f['what']} [key={k}; hit {hits}x in this run]", flush=True)

    n_viol = sum(len(v) for v in unknown.values())
    replay_paths = []
    not_reproduced = 0
    rc = 0
    if unknown:
        rc = 1
        classes = sorted(unknown, key=lambda c: (-len(unknown[c]), c))
        for cls in classes[: engine.max_reported_classes()]:
            cost = getattr(engine, "spec_cost", lambda spec: 0)  # (engines with very unequal run times prefer the cheap witnesses)
            r, v = min(unknown[cls], key=lambda rv: (cost(rv[0]["spec"]) if rv[0].get("spec") is not None else 0, rv[0]["n_ops"], rv[0]["idx"]))
            spec = r["spec"]
            exec_budget, wall_budget = engine.minimise_budget(tier)
            try:
                mspec, used = minimise_violation(engine, spec, cls, known_keys, exec_budget, wall_budget)
            except BaseException as exc:  # noqa: BLE001
                print(f"[{property_id}] minimisation failed ({exc!r}); reporting unminimised", flush=True)
                mspec, used = copy.deepcopy(spec), 0
            mres = run_spec(engine, mspec, known_keys)
            mv = [x for x in mres["violations"] if x["cls"] == cls and x["key"] not in known_keys]
            if not mv:  # should not happen; fall back to the original
                mspec, mres = spec, run_spec(engine, spec, known_keys)
                mv = [x for x in mres["violations"] if x["cls"] == cls] or [v]
            if hasattr(engine, "finalise_replay_spec"):
                mspec = engine.finalise_replay_spec(mspec, mres)
            path = write_replay(property_id, engine, mspec, mv[0], mres["digest"], base_seed)
            for attempt in range(3 if nondeterministic else 1):
                prc, pout, perr = replay_in_fresh_process(property_id, path)
                # exit 1 of the replay = the trace violates the property again (same class, or - for behaviour that
                # depends on a steered runtime event - another class of the same property)
                reproduced = prc == 1 and "VIOLATION property=" in pout
                if reproduced:
                    break
            print(
                f"[{property_id}] class={cls} occurrences={len(unknown[cls])} minimised {r['n_ops']}->{mres['n_ops']} ops "
                f"in {used} executions; fresh-process replay reproduced={reproduced}",
                flush=True,
            )
            print(f"[{property_id}]   detail: {mv[0]['detail']}", flush=True)
            if not reproduced:
                print(f"HARNESS-NONDETERMINISM property={property_id} replay {path} did not reproduce in a fresh process:\n{pout[-800:]}\n{perr[-800:]}", flush=True)
                not_reproduced += 1
            else:
                print(f"VIOLATION property={property_id} replay={path}", flush=True)
                replay_paths.append(path)
        if not replay_paths:
            rc = 2  # violations were seen but none could be reproduced from its replay file: not believed

    _write_evidence(engine, property_id, tier, base_seed, results, t0, det=det, note=None, n_viol=n_viol,
                    replays=replay_paths, known_hit=known_hit, t_batch=t_batch)
    if (inconclusive or nondeterministic) and rc == 0:
        rc = 2  # never exit 0 when some runs could not be completed or repeated executions disagreed
    dt = time.time() - t0
    print(f"[{property_id}] done in {dt:.1f}s rc={rc}", flush=True)
    return rc


def _write_evidence(engine, property_id, tier, base_seed, results, t0, det, note, n_viol, replays=(), known_hit=None, t_batch=None):
    faults, probes = {}, {}
    states = set()
    digests_nontrivial = set()
    digests_all = set()
    steps = 0
    n_ops = 0
    per_sub = {}
    for r in results:
        merge_counts(faults, r["faults"])
        merge_counts(probes, r["probes"])
        states.update(r["states"])
        steps += r["steps"]
        n_ops += r["n_ops"]
        if r["digest"]:
            digests_all.add(r["digest"])
            if r["nontrivial"]:
                digests_nontrivial.add(r["digest"])
        ps = per_sub.setdefault(r["submode"], {"runs": 0, "nontrivial": 0})
        ps["runs"] += 1
        ps["nontrivial"] += int(bool(r["nontrivial"]))
    wall = time.time() - t0
    samples = []
    for r in results:
        if r.get("spec") is not None and len(samples) < 4 and not r["violations"]:
            samples.append({"seed": r["seed"], "submode": r["submode"], "digest": r["digest"],
                            "spec": _trim(r["spec"]), "steps": r["steps"], "nontrivial": r["nontrivial"]})
    if not samples:
        samples = [{"seed": r["seed"], "submode": r["submode"], "digest": r["digest"]} for r in results[:2]]
    tb = t_batch or wall
    cov = {
        "evaluations": len(results),
        "distinct_nontrivial": len(digests_nontrivial),
        "rule": engine.RULE,
        "samples": samples,
        "distinct_run_digests": len(digests_all),
        "logical_steps": steps,
        "operations_executed": n_ops,
        "simulated_time": "no clock in the library: logical time only (operations and scheduling steps)",
        "runs_per_hour": int(len(results) / tb * 3600) if tb > 0 else 0,
        "seeds_per_hour": int(len(results) / tb * 3600) if tb > 0 else 0,
        "faults_fired": dict(sorted(faults.items())),
        "probes_hit": dict(sorted(probes.items())),
        "distinct_abstract_states": len(states),
        "abstract_state_measure": engine.STATE_MEASURE,
        "submodes": per_sub,
        "components": engine.COMPONENTS,
        "determinism_selftest": det,
        "known_findings_hit": known_hit or {},
        "replays": list(replays),
        "exhaustive": False,
    }
    if note:
        cov["note"] = note
    extra = getattr(engine, "extra_coverage", None)
    if extra:
        cov.update(extra(results))
    doc = {
        "property_id": property_id,
        "tier": tier,
        "seed": int(base_seed),
        "level": engine.LEVEL,
        "coverage": cov,
        "assumptions": list(engine.ASSUMPTIONS),
        "wall_s": round(wall, 2),
        "violations": int(n_viol),
    }
    d = findings.evidence_dir()
    os.makedirs(d, exist_ok=True)
    tmp = os.path.join(d, f".{property_id}.json.tmp")
    with open(tmp, "w") as fh:
        fh.write(json.dumps(json.loads(jdump(doc)), indent=1, sort_keys=True))
        fh.write("\n")
    os.replace(tmp, os.path.join(d, f"{property_id}.json"))
    _self_validate(os.path.join(d, f"{property_id}.json"))


def _trim(spec, limit=6000):
    s = jdump(spec)
    if len(s) <= limit:
        return spec
    return {"truncated": s[:limit]}


def _self_validate(path):
    """Validate against the evidence schema if jsonschema is importable; structural check otherwise."""
    with open(path) as fh:
        doc = json.load(fh)
    schema_path = "/root/.vp/EVIDENCE.schema.json"
    try:
        import jsonschema  # type: ignore

        if os.path.exists(schema_path):
            with open(schema_path) as fh:
                jsonschema.validate(doc, json.load(fh))
            return
    except ImportError:
        pass
    for k in ("property_id", "tier", "seed", "level", "coverage", "wall_s"):
        if k not in doc:
            raise HarnessError(f"evidence missing {k}")
    cov = doc["coverage"]
    for k in ("evaluations", "distinct_nontrivial", "rule", "samples"):
        if k not in cov:
            raise HarnessError(f"evidence.coverage missing {k}")
    if not isinstance(cov["samples"], list) or not cov["samples"]:
        raise HarnessError("evidence.coverage.samples empty")
