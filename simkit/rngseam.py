"""Global-NumPy-RNG seam (S7).

`grid.ode.solve_ode_bvp` draws its default initial guess from the process-global legacy RNG
(`np.random.rand(order, x.size)`).  Inside a simulated run the simulator owns that source: every
draw is served by `RngSeam` according to the behaviour chosen by the run's PRNG, and is logged.

Behaviours (all legal outputs of a U[0,1) generator):
  uniform:<seed>  seeded, same law as production
  zeros           every draw 0.0
  ones            every draw 1 - 2**-53
  alt             0, 1-eps, 0, 1-eps, ...
  spike           zeros with a single 1-eps entry (position from the call counter)
  ramp            monotone ramp in [0, 1)
  half            every draw 0.5
  tiny            every draw 2**-53 (smallest non-zero output of the production generator)
  extremes        each draw one of 0, 2**-53, 0.5, 1-2**-53 (seeded choice)
"""

from __future__ import annotations

import numpy as np

ONE_MINUS = 1.0 - 2.0**-53
BEHAVIOURS = ("uniform", "zeros", "ones", "alt", "spike", "ramp", "half", "tiny", "extremes")


class RngSeam:
    PATCHED = ("rand", "random_sample", "random", "ranf", "sample")

    def __init__(self, counters=None, log=None):
        self.counters = counters
        self.log = log
        self.behaviour = "uniform"
        self.seed = 0
        self._rs = np.random.RandomState(0)
        self.calls = 0
        self._k = 0
        self.values = 0
        self._saved = {}

    # -- control (called by the engine, decided by the run PRNG) -------------------------------
    def set_behaviour(self, behaviour: str, seed: int = 0):
        if behaviour not in BEHAVIOURS:
            raise ValueError(behaviour)
        self.behaviour = behaviour
        self.seed = int(seed) % (2**32)
        self._rs = np.random.RandomState(self.seed)
        self._k = 0  # draws since the behaviour was set: a draw is a pure function of (behaviour, seed, k)

    def perturb(self, n: int, reseed=None):
        """Prior RNG history: somebody else in the process used / reseeded the global RNG."""
        if reseed is not None:
            self._rs = np.random.RandomState(int(reseed) % (2**32))
        if n:
            self._rs.random_sample(int(n))
        # also disturb the *real* legacy global state and the stdlib one: nothing in the library
        # may depend on them (seeded rotations must come out the same)
        np.random.seed((self.seed * 7919 + n) % (2**32))
        np.random.get_state()

    # -- the seam ---------------------------------------------------------------------------------
    def _draw(self, shape):
        shape = tuple(int(s) for s in shape)
        n = int(np.prod(shape)) if shape else 1
        b = self.behaviour
        if b == "uniform":
            out = self._rs.random_sample(n)
        elif b == "zeros":
            out = np.zeros(n)
        elif b == "ones":
            out = np.full(n, ONE_MINUS)
        elif b == "half":
            out = np.full(n, 0.5)
        elif b == "alt":
            out = np.zeros(n)
            out[1::2] = ONE_MINUS
        elif b == "spike":
            out = np.zeros(n)
            out[(self.seed + self._k) % n] = ONE_MINUS
        elif b == "ramp":
            out = np.arange(n, dtype=float) / n
        elif b == "tiny":
            out = np.full(n, 2.0**-53)  # the smallest non-zero value the production generator can return
        elif b == "extremes":
            out = np.array([0.0, 2.0**-53, 0.5, ONE_MINUS])[self._rs.randint(0, 4, size=n)]
        else:  # pragma: no cover
            raise ValueError(b)
        self.calls += 1
        self._k += 1
        self.values += n
        if self.counters is not None:
            self.counters.hit("rng:" + b)
        if self.log is not None:
            self.log.add("rng", b, shape)
        return out.reshape(shape) if shape else float(out[0])

    def rand(self, *shape):
        return self._draw(shape)

    def random_sample(self, size=None):
        if size is None:
            return self._draw(())
        if isinstance(size, (int, np.integer)):
            size = (size,)
        return self._draw(tuple(size))

    def default_rng(self, seed=None):
        if seed is not None:
            return self._saved["default_rng"](seed)
        # unseeded generator requested: serve a simulator-seeded one
        self.calls += 1
        if self.counters is not None:
            self.counters.hit("rng:default_rng-unseeded")
        return self._saved["default_rng"](self.seed + self.calls)

    def __enter__(self):
        for name in self.PATCHED:
            self._saved[name] = getattr(np.random, name)
        self._saved["default_rng"] = np.random.default_rng
        self._state = np.random.get_state()
        np.random.rand = self.rand
        for name in ("random_sample", "random", "ranf", "sample"):
            setattr(np.random, name, self.random_sample)
        np.random.default_rng = self.default_rng
        return self

    def __exit__(self, *exc):
        for name in self.PATCHED:
            setattr(np.random, name, self._saved[name])
        np.random.default_rng = self._saved["default_rng"]
        np.random.set_state(self._state)
        return False
