"""simkit - a small deterministic-simulation kit for theochem/grid.

One integer (VERIF_SEED) decides every run.  See /verif/DESIGN.md section 2.
"""
