"""Command line: check <property> --tier quick|thorough | --replay <file> | --digests i,j,k"""

from __future__ import annotations

import argparse
import importlib
import json
import os
import sys
import warnings

REGISTRY = {
    "C19": ("engines.cache_history", "make_engine", {}),
    "C10": ("engines.grid_history", "make_engine", {}),
    "C20": ("engines.caller_env", "make_engine", {}),
    "C15": ("engines.rng_seam", "make_engine_ode", {}),
    "C16": ("engines.rng_seam", "make_engine_poisson", {}),
}

DEFAULT_SEED = {"quick": 20260925, "thorough": 20260926}


def _check_env():
    """The launcher (bin/check) pins these; refuse to run without them (replay would not be exact)."""
    need = {"PYTHONHASHSEED": None, "OPENBLAS_NUM_THREADS": "1", "OMP_NUM_THREADS": "1", "MKL_NUM_THREADS": "1"}
    for k, v in need.items():
        if k not in os.environ or (v is not None and os.environ[k] != v):
            raise SystemExit(f"HARNESS-ERROR: environment variable {k} must be set by the launcher (bin/check)")


def _assert_grid_under_test():
    import grid

    src = os.path.realpath(os.environ.get("GRID_SRC", "/repo/src"))
    gf = os.path.realpath(grid.__file__)
    if not gf.startswith(src + os.sep):
        raise SystemExit(f"HARNESS-ERROR: grid imported from {gf}, expected below {src}")


def get_factory(pid):
    modname, fn, kw = REGISTRY[pid]
    mod = importlib.import_module(modname)
    f = getattr(mod, fn)
    return f


def main(argv=None):
    warnings.simplefilter("ignore")
    ap = argparse.ArgumentParser(prog="check")
    ap.add_argument("property")
    ap.add_argument("--tier", default=os.environ.get("VERIF_TIER", "quick"), choices=["quick", "thorough"])
    ap.add_argument("--seed", type=int, default=None)
    ap.add_argument("--replay", default=None)
    ap.add_argument("--digests", default=None, help="internal: print digests of the given job indices")
    ap.add_argument("--jobs", type=int, default=None)
    ap.add_argument("--scale", type=float, default=None, help="multiply the number of runs per sub-mode")
    args = ap.parse_args(argv)

    _check_env()
    _assert_grid_under_test()
    pid = args.property
    if pid not in REGISTRY:
        raise SystemExit(f"unknown property {pid}; claimed: {sorted(REGISTRY)}")
    factory = get_factory(pid)
    from . import findings, runner

    if args.seed is not None:
        base_seed = args.seed
    elif os.environ.get("VERIF_SEED", "").strip():
        base_seed = int(os.environ["VERIF_SEED"])
    else:
        base_seed = DEFAULT_SEED[args.tier]

    if args.replay:
        engine = factory()
        known, _ = findings.load(pid)
        doc, res, same_cls, same_digest = runner.replay_file(engine, args.replay, frozenset(known))
        print(f"[{pid}] replay {args.replay}: digest {'same' if same_digest else 'DIFFERENT'}; expected class {doc['expected']['cls']}")
        for v in res["violations"]:
            print(f"[{pid}]   violation cls={v['cls']} step={v['step']}: {v['detail']}")
        if res["error"]:
            print(f"HARNESS-ERROR property={pid}: {res['error']}")
            return 2
        if same_cls:
            print(f"REPLAY-REPRODUCED digest_same={same_digest}")
            print(f"VIOLATION property={pid} replay={args.replay}")
            return 1
        if res["violations"]:
            print(f"[{pid}] replay shows a different violation class")
            print(f"VIOLATION property={pid} replay={args.replay}")
            return 1
        print(f"[{pid}] replay did not reproduce (property holds on this tree for this trace)")
        return 0

    if args.digests is not None:
        engine = factory()
        known, _ = findings.load(pid)
        jobs = runner.plan_jobs(engine, args.tier, base_seed, args.scale)
        idxs = [int(x) for x in args.digests.split(",") if x != ""]
        sel = [(jobs[i][0], jobs[i][1], jobs[i][2], False) for i in idxs]
        d = runner.digests_for(factory, frozenset(known), sel, min(8, max(1, len(sel))))
        print("DIGESTS " + json.dumps({str(k): list(v) for k, v in d.items()}))
        return 0

    return runner.run_check(factory, pid, args.tier, base_seed, n_workers=args.jobs, scale=args.scale)


if __name__ == "__main__":  # pragma: no cover
    sys.exit(main())
