"""Known findings: committed, read-only at run time.

/verif/known_findings.json:
  {"findings": [{"property": "C10", "key": "<violation key>", "status": "known"|"fixed",
                 "commit": "<sha, for fixed>", "what": "<one line>"}]}

Only status == "known" suppresses anything, and only the exact key.  `fixed` entries are history.
"""

from __future__ import annotations

import json
import os


def root() -> str:
    return os.environ.get("VERIF_ROOT") or os.path.dirname(os.path.dirname(os.path.abspath(__file__)))


def load(property_id: str):
    path = os.path.join(root(), "known_findings.json")
    if not os.path.exists(path):
        return {}, []
    with open(path) as fh:
        doc = json.load(fh)
    known = {}
    fixed = []
    for f in doc.get("findings", []):
        if f.get("property") != property_id:
            continue
        if f.get("status") == "known":
            known[f["key"]] = f
        elif f.get("status") == "fixed":
            fixed.append(f)
    return known, fixed


def evidence_dir() -> str:
    return os.environ.get("VERIF_EVIDENCE_DIR") or os.path.join(root(), "evidence")


def replay_dir() -> str:
    return os.environ.get("VERIF_REPLAY_DIR") or os.path.join(root(), "replays")
