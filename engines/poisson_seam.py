"""C16 - Poisson solvers under the hidden global RNG and shared state (narrow scope).

Every (l, m) radial solve inside solve_poisson_bvp / solve_poisson_robust starts from a guess drawn from
the process-global NumPy RNG.  The simulator owns that source and the package-data store behind the
robust solver's Coulomb table; a run is a history of solves on ONE shared grid object with one shared
option dictionary.  Densities / grids are workload (kept inside the grid's resolution envelope).
"""

from __future__ import annotations

import copy
import random

import numpy as np
from scipy.special import erf

from simkit import procstate
from simkit.core import library_raised, Counter, EventLog, Violation, hash_array
from simkit.rngseam import BEHAVIOURS, RngSeam
from simkit.store import SimStore, StoreSeam

PID = "C16"
ACC_BOUND = 5.0e-3  # |V - V_exact| on resolved densities (the test-suite's own level is 1e-2; measured <= 6e-5 in the envelope used)
SPREAD_BOUND = 1.0e-8  # between RNG draws: max(SPREAD_BOUND, SPREAD_TOL_FACTOR*tol); measured ~1e-15 (s-type), 1e-3*tol (l=1 channel)
SPREAD_TOL_FACTOR = 0.5
LIN_FACTOR = 5.0  # linearity residual <= LIN_FACTOR * tol * scale (measured <= 0.05*tol)
CORE_BOUND = 1.0e-6  # robust solver on its own fitted core model (measured <= 2.2e-8 over all grid families; a real defect shows >= 1e-3)
ROBUST_ELEMENTS = (1, 6, 7, 8, 17)
MAX_NODES = 30000


def _rho_s(pts, c, a):
    return (a / np.pi) ** 1.5 * np.exp(-a * np.sum((pts - c) ** 2, axis=1))


def _v_s(pts, c, a):
    r = np.linalg.norm(pts - c, axis=1)
    with np.errstate(all="ignore"):
        v = erf(np.sqrt(a) * r) / r
    return np.where(r < 1e-12, 2 * np.sqrt(a / np.pi), v)


def _rho_z(pts, c, a):
    d = pts - c
    return 2 * a * d[:, 2] * _rho_s(pts, c, a)


def _v_z(pts, c, a):
    d = pts - c
    r = np.linalg.norm(d, axis=1)
    sa = np.sqrt(a)
    with np.errstate(all="ignore"):
        dv = (2 * sa / np.sqrt(np.pi)) * np.exp(-a * r * r) / r - erf(sa * r) / r**2
        out = -(d[:, 2] / r) * dv
    return np.where(r < 1e-9, 0.0, out)


_DIRS = {"z": (0.0, 0.0, 1.0), "x": (1.0, 0.0, 0.0), "y": (0.0, 1.0, 0.0), "g": (0.48, -0.6, 0.64)}


def _rot(pts, c, kind):
    """Rotate coordinates about the centre so that the p-type axis `kind` becomes the z axis."""
    n = np.array(_DIRS[kind])
    d = pts - c
    if kind == "z":
        return d
    # z' = n.d ; only z' and |d| enter the p-type formulas
    out = np.zeros_like(d)
    zp = d @ n
    perp = d - np.outer(zp, n)
    out[:, 2] = zp
    out[:, 0] = np.linalg.norm(perp, axis=1)
    return out


def _centre_of(c, term):
    """Atomic runs: one centre.  Molecular runs: `c` is the (K, 3) array of nuclei and a term carries its atom index."""
    c = np.asarray(c, dtype=float)
    return c if c.ndim == 1 else c[term[3] if len(term) > 3 else 0]


def _density(spec, pts, c0):
    """spec = list of [kind, coeff, alpha(, atom index)]; kind 's' or a p-type axis 'z','x','y','g' (generic direction)."""
    out = np.zeros(len(pts))
    for term in spec:
        kind, co, a = term[:3]
        c = _centre_of(c0, term)
        if kind == "s":
            out = out + co * _rho_s(pts, c, a)
        else:
            out = out + co * _rho_z(_rot(pts, c, kind), np.zeros(3), a)
    return out


def _potential(spec, pts, c0):
    out = np.zeros(len(pts))
    for term in spec:
        kind, co, a = term[:3]
        c = _centre_of(c0, term)
        if kind == "s":
            out = out + co * _v_s(pts, c, a)
        else:
            out = out + co * _v_z(_rot(pts, c, kind), np.zeros(3), a)
    return out


MOL_ACC_BOUND = 3.0e-2  # multi-centre molecular grids (40-50 radial nodes, degree 11-15 per atom): the test-suite's own level is 1e-2; measured <= 5.6e-3 (gross errors are O(0.1-1))
MOL_SPREAD_TOL_FACTOR = 0.5  # many tiny high-l channels, each refined from its own draw (measured <= 0.02 tol)


def _spread_bound(ctx):
    if "mol" in ctx.spec:
        return max(SPREAD_BOUND, MOL_SPREAD_TOL_FACTOR * ctx.spec["grid"]["tol"])
    return max(SPREAD_BOUND, SPREAD_TOL_FACTOR * ctx.spec["grid"]["tol"])


def _acc_bound(ctx):
    """Without the extra node at r = 0 the documented accuracy is the test-suite's 1e-2 level (measured up to 2.4e-3)."""
    if "mol" in ctx.spec:
        return MOL_ACC_BOUND
    if (ctx.spec["grid"].get("opts") or {}).get("include_origin") is False:
        return 4 * ACC_BOUND
    return ACC_BOUND


class Ctx:
    def __init__(self, spec, known):
        self.spec = spec
        self.known = known
        self.log = EventLog()
        self.faults = Counter()
        self.probes = Counter()
        self.states = set()
        self.violations = []
        self.known_hits = []
        self.step = 0
        self.nontrivial = False
        self.rng = RngSeam(self.faults, None)
        self.store = SimStore(self.faults, None)
        self.stats = {"acc": 0.0, "spread": 0.0, "lin": 0.0, "core": 0.0}

    def violate(self, inv, opkind, sig, detail):
        cls = f"{PID}:{inv}:{opkind}"
        key = f"{cls}:{sig}"
        if key in self.known:
            self.known_hits.append(key)
            self.log.add(self.step, "known", key)
            return
        self.violations.append(Violation(cls, key, detail, self.step))
        self.log.add(self.step, "VIOLATION", key)


def _outcome(fn):
    try:
        return ("ok", fn())
    except BaseException as exc:  # noqa: BLE001
        if isinstance(exc, (KeyboardInterrupt, SystemExit)) or type(exc).__name__ == "_RunTimeout":
            raise
        return ("raise", exc)


def _atomgrid(g, rg, c, rotate):
    """The ways a caller gets an atomic grid: one degree for all shells, or per-shell degrees (fewer angular points near
    the nucleus) given as a Python list, as an ndarray, as sizes, as unsupported degrees that are matched up, or through
    from_pruned.  Every shell keeps degree >= g['deg'], so the expected accuracy is that of the uniform grid."""
    from grid.atomgrid import AtomGrid

    how = g.get("ctor", "uniform")
    lo, hi, k = g["deg"], g.get("deg_hi", g["deg"]), g.get("n_inner", 0)
    n = g["nr"]
    mk = {} if g.get("method", "lebedev") == "lebedev" else {"method": g["method"]}  # the family of angular grids is the caller's choice
    if how == "uniform":
        return AtomGrid(rg, degrees=[lo], center=c, rotate=rotate, **mk)
    if how == "list":
        return AtomGrid(rg, degrees=[lo] * k + [hi] * (n - k), center=c, rotate=rotate, **mk)
    if how == "array":
        return AtomGrid(rg, degrees=np.array([lo] * k + [hi] * (n - k)), center=c, rotate=rotate, **mk)
    if how == "matched":
        # unsupported degrees: the library moves each up to the next tabulated one (2 -> 3, 4 -> 5, 6 -> 7)
        return AtomGrid(rg, degrees=np.array([max(lo - 1, 2)] * k + [hi - 1] * (n - k)), center=c, rotate=rotate, **mk)
    if how == "sizes":
        from grid.angular import AngularGrid

        sz = {d: AngularGrid(degree=d, **mk).size for d in (lo, hi)}
        return AtomGrid(rg, sizes=[sz[lo]] * k + [sz[hi]] * (n - k), center=c, rotate=rotate, **mk)
    if how == "pruned":
        rb = float(rg.points[max(k, 1)]) * 0.999
        return AtomGrid.from_pruned(rg, 1.0, r_sectors=[rb], d_sectors=[lo, hi], center=c, rotate=rotate, **mk)
    raise ValueError(how)


def _setup(ctx, state):
    """The shared grid object of the run (built once, reused by every solve: lazy basis, transform)."""
    from grid.atomgrid import AtomGrid
    from grid.onedgrid import GaussChebyshev, GaussLegendre
    from grid.rtransform import BeckeRTransform, InverseRTransform

    g = ctx.spec["grid"]
    tf = BeckeRTransform(g["rmin"], g["R"])
    if g["rule"] in ("trap", "cc"):
        # closed rules: the first radial node is r = 0 exactly (a whole shell on the nucleus), the last one is "infinity"
        from grid.onedgrid import ClenshawCurtis, Trapezoidal

        rule = Trapezoidal if g["rule"] == "trap" else ClenshawCurtis
        ctx.probes.hit("radial-grid-with-a-shell-at-r=0")
    else:
        rule = GaussLegendre if g["rule"] == "gl" else GaussChebyshev
    rad = g.get("radial") or ["becke"]
    if rad[0] == "becke":
        rg = tf.transform_1d_grid(rule(g["nr"]))
    elif rad[0] == "linfin":
        from grid.rtransform import LinearFiniteRTransform

        rg = LinearFiniteRTransform(rad[1], rad[2]).transform_1d_grid(rule(g["nr"]))
    elif rad[0] == "knowles":
        from grid.rtransform import KnowlesRTransform

        rg = KnowlesRTransform(rad[1], rad[2], rad[3]).transform_1d_grid(rule(g["nr"]))
    elif rad[0] in ("exp", "power"):
        # a map that takes its scale from the first grid it sees (b=None); the very same object, inverted, is the map
        # the radial ODEs are solved through - and the caller may make more radial grids from it later on
        from grid.onedgrid import UniformInteger
        from grid.rtransform import ExpRTransform, PowerRTransform

        state["infer_tf"] = (ExpRTransform if rad[0] == "exp" else PowerRTransform)(rad[1], rad[2])
        rg = state["infer_tf"].transform_1d_grid(UniformInteger(rad[3]))
    else:
        raise ValueError(rad)
    if rad[0] != "becke":
        ctx.probes.hit("radial-grid-family:" + rad[0])
    c = np.array(g["center"], dtype=float)
    state["grid"] = _atomgrid(g, rg, c, g["rotate"])
    # a second grid object of the same size but another rotation: solves alternate between the two
    state["grid_b"] = _atomgrid(g, rg, c, g["rotate"] + 17)
    if g.get("as_molgrid"):
        # the same atomic grids wrapped as one-atom molecular grids (store=True): the solvers' MolGrid path
        from grid.becke import BeckeWeights
        from grid.molgrid import MolGrid

        for k in ("grid", "grid_b"):
            state[k] = MolGrid(np.array([1]), [state[k]], BeckeWeights(order=3), store=True)
    # the map the radial ODEs are solved through is the caller's choice too: the inverse of the map that made the radial
    # grid (the usual case), the inverse of another map of [-1, 1] onto the half line, or none at all (identity)
    ot = g.get("ode_tf") or ["inv_same"]
    if "infer_tf" in state:
        state["tf"] = InverseRTransform(state["infer_tf"])
        ot = ["inv_same"]
    elif ot[0] == "inv_same":
        state["tf"] = InverseRTransform(tf)
    elif ot[0] == "identity":
        from grid.rtransform import IdentityRTransform

        state["tf"] = IdentityRTransform()
    elif ot[0] == "inv_becke":
        state["tf"] = InverseRTransform(BeckeRTransform(ot[1], ot[2]))
    elif ot[0] == "inv_linfin":
        from grid.rtransform import LinearFiniteRTransform

        state["tf"] = InverseRTransform(LinearFiniteRTransform(ot[1], ot[2]))
    else:
        raise ValueError(ot)
    if ot[0] != "inv_same":
        ctx.probes.hit("ode-solved-through:" + ot[0])
    state["tf_ivp"] = InverseRTransform(tf)
    # (a caller scanning the scale of the map: the same kind of wrapper around a map with another parameter)
    state["tf_ivp_alt"] = InverseRTransform(BeckeRTransform(g["rmin"], round(g["R"] * 1.7, 3)))
    state["center"] = c
    state["pts0"] = c + np.random.RandomState(g["pseed"]).uniform(-2.0, 2.0, size=(12, 3))  # oracle's own copy
    # two of the evaluation points are special: very close to the centre, and far outside the charge
    rr = np.random.RandomState(g["pseed"] + 7)
    u1, u2 = rr.normal(size=3), rr.normal(size=3)
    # (without the extra node at r = 0 the solution is not defined below the first radial node: no near-centre point then)
    if (g.get("opts") or {}).get("include_origin") is not False:
        state["pts0"][0] = c + 1e-4 * u1 / np.linalg.norm(u1)
    state["pts0"][1] = c + (rr.uniform(6.0, 12.0) if g.get("far_inside") else rr.uniform(25.0, 60.0)) * u2 / np.linalg.norm(u2)
    state["pts"] = state["pts0"].copy()  # the caller's evaluation points: ONE array handed to every returned potential
    state["pts_b0"] = c + np.random.RandomState(g["pseed"] + 1).uniform(-2.0, 2.0, size=(12, 3))
    state["pts_b"] = state["pts_b0"].copy()
    state["rho"] = {}  # the caller's density arrays: built once per density, handed to every solve
    # ONE options dict, reused by every BVP call of the run - and by the IVP calls too when it starts out
    # empty (tol 1e-6 is the solver's own default), which is what a caller with no special options does
    # (non-empty dicts also carry a mesh cap - 5x the largest mesh ever needed inside the envelope - so that a solve
    # that cannot converge ends in the library's own "didn't converge" error instead of grinding to 50 000 nodes)
    state["params"] = {} if g["tol"] == 1e-6 else {"tol": g["tol"], "max_nodes": MAX_NODES}
    state["params0"] = dict(state["params"])
    state["results"] = {}
    state["bits"] = {}


def _setup_mol(ctx, state):
    """Molecular runs: ONE shared multi-centre MolGrid (store=True; every atom has its own radial size, degree and rotation)
    and a second MolGrid object built from the same atoms listed in the opposite order."""
    from grid.atomgrid import AtomGrid
    from grid.becke import BeckeWeights
    from grid.molgrid import MolGrid
    from grid.onedgrid import GaussLegendre
    from grid.rtransform import BeckeRTransform, InverseRTransform

    m = ctx.spec["mol"]
    tf = BeckeRTransform(m["rmin"], m["R"])
    cen = np.array([a["center"] for a in m["atoms"]], dtype=float)

    def build(order):
        ags = [AtomGrid(tf.transform_1d_grid(GaussLegendre(m["atoms"][i]["nr"])), degrees=[m["atoms"][i]["deg"]], center=cen[i].copy(), rotate=m["atoms"][i]["rotate"]) for i in order]
        return MolGrid(np.array([m["atoms"][i]["z"] for i in order]), ags, BeckeWeights(order=3), store=True)

    n = len(m["atoms"])
    state["grid"] = build(list(range(n)))
    state["grid_b"] = build(list(range(n))[::-1])
    state["tf"] = InverseRTransform(tf)
    state["center"] = cen
    mid = cen.mean(axis=0)
    rr = np.random.RandomState(m["pseed"])
    state["pts0"] = mid + rr.uniform(-2.5, 2.5, size=(12, 3))
    u1, u2 = rr.normal(size=3), rr.normal(size=3)
    state["pts0"][0] = cen[m["pseed"] % n] + 1e-4 * u1 / np.linalg.norm(u1)  # next to one of the nuclei
    state["pts0"][1] = mid + rr.uniform(25.0, 60.0) * u2 / np.linalg.norm(u2)  # far outside the charge
    state["pts0"][2] = 0.5 * (cen[0] + cen[-1]) + 0.05 * rr.normal(size=3)  # between two nuclei
    state["pts"] = state["pts0"].copy()
    state["pts_b0"] = mid + np.random.RandomState(m["pseed"] + 1).uniform(-2.5, 2.5, size=(12, 3))
    state["pts_b"] = state["pts_b0"].copy()
    state["rho"] = {}
    g = ctx.spec["grid"]
    state["params"] = {} if g["tol"] == 1e-6 else {"tol": g["tol"], "max_nodes": MAX_NODES}
    state["params0"] = dict(state["params"])
    state["results"] = {}
    state["bits"] = {}
    ctx.probes.hit("multi-centre-molecular-grid:%d-atoms" % n)


def _op_mrobust(ctx, op, state):
    """solve_poisson_robust on the multi-centre grid: the density is the sum of the fitted core models of all atoms
    (exact-cancellation case, the residual handed to the numerical solver is zero) or that plus a smooth density."""
    from grid.robust_poisson import solve_poisson_robust

    _, kind, beh, bseed, o = op
    m = ctx.spec["mol"]
    gb = bool(o.get("grid_b"))
    g, cen, pts = state["grid_b" if gb else "grid"], state["center"], state["pts"]
    order = list(range(len(m["atoms"])))
    if gb:
        order = order[::-1]
    core = [t + [i] for i in range(len(m["atoms"])) for t in _core_spec(m["atoms"][i]["z"])]
    smooth = ctx.spec["dens"]["rho1"] if kind in ("core+smooth", "core+fit") else []
    spec = core + smooth
    extra = {}
    if kind == "core+fit":
        # second split: the smooth part is fitted per atom with Gaussians whose exponents the caller supplies - here the
        # exponents that are actually in the density (and one that is not), so the fit recovers it and the numerical
        # residual is small.  (With the default basis the fit on a molecule is ill-conditioned on the unchanged tree.)
        basis = sorted({float(t[2]) for t in smooth} | {2.7})
        # (the order in which the caller lists its exponents is arbitrary: ascending, descending, any; list or ndarray)
        basis = (basis, basis[::-1], list(np.random.RandomState(bseed).permutation(basis)))[bseed % 3]
        extra = {"split2": True, "alphas_basis": np.array(basis) if (bseed // 3) % 2 else [float(b) for b in basis]}
        ctx.probes.hit("multi-centre-robust-solve-with-second-split")
    rkey = ("mrobust", kind, gb)
    if rkey not in state["rho"]:
        state["rho"][rkey] = _density(spec, g.points, cen)
    rho = state["rho"][rkey]
    ctx.rng.set_behaviour(beh, bseed)
    holder = {}

    def call():
        holder["pot"] = solve_poisson_robust(g, rho, state["tf"], np.array([m["atoms"][i]["z"] for i in order]), cen[order].copy(), ode_params=state["params"], **extra, **dict(ctx.spec["grid"].get("opts") or {}))
        return holder["pot"](pts)

    oc = _outcome(call)
    sig = f"mol:{kind}"
    if oc[0] == "raise":
        ctx.violate("robust-raise", "robust", f"{sig}:{type(oc[1]).__name__}", f"solve_poisson_robust on the molecular grid raised {oc[1]!r}")
        return
    v = np.asarray(oc[1], dtype=float)
    ex = _potential(spec, state["pts0"], cen)
    scale = max(1.0, float(np.max(np.abs(ex))))
    err = float(np.max(np.abs(v - ex))) / scale
    if kind == "core":
        ctx.stats["core"] = max(ctx.stats["core"], err)
        if err > CORE_BOUND:
            ctx.violate("exact-core", "robust", sig, f"robust solver on the sum of the fitted core models of {[a['z'] for a in m['atoms']]} off by {err:.3g} (> {CORE_BOUND}); draw {beh}:{bseed}")
    elif not np.isfinite(err) or err > _acc_bound(ctx):
        ctx.violate("accuracy", "robust", sig, f"robust potential on the molecular grid off by {err:.3g}")
    # (the second split fits atom after atom, in the order the caller lists them: another atom order or another order of
    # the exponents is another - equally valid - decomposition, equal only to the solver's accuracy, not to its tolerance)
    rkey2 = ("mrobust", kind) if kind != "core+fit" else ("mrobust", kind, gb, bseed % 3, (bseed // 3) % 2)
    prev = state["results"].get(rkey2)
    if prev is not None:
        sp = float(np.max(np.abs(prev - v))) / scale
        ctx.nontrivial = True
        if sp > _spread_bound(ctx):
            ctx.violate("draw-dependence", "robust", sig, f"robust potential on the molecular grid differs by {sp:.3g} between draws / atom orders")
    state["results"][rkey2] = v
    state.setdefault("held_pots", []).append((sig, holder["pot"], v.copy(), spec, 0.0))
    del state["held_pots"][:-3]
    if kind == "core+smooth" and "rho1" in state["results"]:
        d = float(np.max(np.abs(v - _potential(core, state["pts0"], cen) - state["results"]["rho1"]))) / scale
        ctx.probes.hit("robust-vs-plain-compared")
        if d > max(10 * LIN_FACTOR * ctx.spec["grid"]["tol"], 2 * _spread_bound(ctx)):
            ctx.violate("robust-vs-plain", "robust", sig, f"robust(core+smooth) - core_analytic - plain(smooth) = {d:.3g} on the molecular grid")
    ctx.probes.hit("multi-centre-robust-solve")
    ctx.log.add(ctx.step, "mrobust", kind, beh, bseed, hash_array(v))


def _dens_spec(ctx, which):
    d = ctx.spec["dens"]
    if which == "combo":
        a, b = d["a"], d["b"]
        return [[t[0], a * t[1]] + list(t[2:]) for t in d["rho1"]] + [[t[0], b * t[1]] + list(t[2:]) for t in d["rho2"]]
    return d[which]


def _op_solve(ctx, op, state):
    from grid.poisson import solve_poisson_bvp

    _, which, beh, bseed, o = op
    g, c, pts = state["grid_b" if o.get("grid_b") else "grid"], state["center"], state["pts"]
    if o.get("grid_b"):
        ctx.probes.hit("solve-on-second-grid-object")
    spec = _dens_spec(ctx, which)
    rk0 = (which, bool(o.get("grid_b")))
    if rk0 not in state["rho"]:
        state["rho"][rk0] = _density(spec, g.points, c)
    rho = state["rho"][rk0]
    ctx.rng.set_behaviour(beh, bseed)
    calls0 = ctx.rng.calls
    params = state["params"] if o.get("shared_params", True) else dict(state["params0"])
    kw = dict(ctx.spec["grid"].get("opts") or {})
    bscale = kw.pop("boundary_scale", None)
    shift = 0.0
    if kw.pop("exact_boundary", False) or bscale is not None:
        # the asymptotic value handed in by the caller instead of being integrated: total charge * sqrt(4 pi) - or a
        # multiple of it (0, 1/2, 2): the l = 0 solution then shifts by the constant (b - b0) Y00 / R, R = outermost node
        q = float(sum(t[1] for t in spec if t[0] == "s"))
        sc = 1.0 if bscale is None else float(bscale)
        kw["boundary"] = float(sc * q * np.sqrt(4 * np.pi))
        if bscale is not None:
            ag = g.atgrids[0] if hasattr(g, "atgrids") else g
            rad = np.asarray(ag.rgrid.points)
            cut = kw.get("remove_large_pts", 1e6)
            r_out = float(rad.max() if cut is None else rad[rad <= cut].max())
            shift = (sc - 1.0) * q / r_out
            ctx.probes.hit("explicit-boundary-value:%g" % sc)
    held = {}

    def call():
        pot = solve_poisson_bvp(g, rho, state["tf"], ode_params=params, **kw)
        held["pot"] = pot
        first = pot(pts)
        held["keep"] = np.array(first, dtype=float)
        held["second"] = pot(state["pts_b"])  # same number of points, other points
        held["first_after"] = first
        return first

    oc = _outcome(call)
    if oc[0] == "ok" and (bseed + ctx.step) % 6 == 0:
        # how many points the caller asks for in ONE call is the caller's business: none, one, thousands, a whole cube.
        # The value at a point must not depend on the company it is evaluated in.
        ag0 = g.atgrids[0] if hasattr(g, "atgrids") else g
        # (... or exactly as many as the atomic grid itself has: evaluating one grid's potential on another grid of the same size)
        nbig = (0, 1, 3000, 140000 if "mol" not in ctx.spec else 9000, int(ag0.size), int(ag0.size))[(bseed // 6) % 6]
        cc = np.atleast_2d(np.asarray(c, dtype=float))[0]
        big = cc + np.random.RandomState(bseed + 17).uniform(-3.0, 3.0, size=(nbig, 3))
        ob = _outcome(lambda: np.asarray(held["pot"](big), dtype=float))
        if ob[0] == "raise":
            ctx.violate("batch-size", "solve", f"{which}:raise", f"the returned potential raised {ob[1]!r} when evaluated at {nbig} points in one call")
        elif ob[1].shape != (nbig,):
            ctx.violate("batch-size", "solve", f"{which}:shape", f"the returned potential gave shape {ob[1].shape} for {nbig} points")
        elif nbig:
            sel = np.unique(np.concatenate([np.random.RandomState(bseed).randint(nbig, size=9), [0, nbig - 1, nbig // 2]]))
            sub = np.asarray(held["pot"](big[sel].copy()), dtype=float)
            db = float(np.max(np.abs(ob[1][sel] - sub))) / max(1.0, float(np.max(np.abs(sub))))
            if not np.isfinite(db) or db > 1e-9:
                ctx.violate("batch-size", "solve", which, f"the potential at the same points differs by {db:.3g} between a call with {nbig} points and a call with {len(sel)} of them")
        ctx.probes.hit("potential-evaluated-at-%d-points" % nbig)
    if oc[0] == "ok" and "mol" not in ctx.spec:
        # the one batch size that is natural for this object - exactly as many points as the atomic grid has (one grid's
        # potential evaluated on another grid of the same size) - against the same points in a batch one shorter
        ag1 = g.atgrids[0] if hasattr(g, "atgrids") else g
        cc1 = np.atleast_2d(np.asarray(c, dtype=float))[0]
        own = cc1 + np.random.RandomState(bseed + 29).uniform(-2.5, 2.5, size=(int(ag1.size), 3))
        oa = _outcome(lambda: np.asarray(held["pot"](own.copy()), dtype=float))
        ob2 = _outcome(lambda: np.asarray(held["pot"](own[:-1].copy()), dtype=float))
        if oa[0] == "ok" and ob2[0] == "ok" and oa[1].shape == (len(own),):
            dn = float(np.max(np.abs(oa[1][:-1] - ob2[1]))) / max(1.0, float(np.max(np.abs(ob2[1])))) if len(own) > 1 else 0.0
            if not np.isfinite(dn) or dn > 1e-9:
                ctx.violate("batch-size", "solve", f"{which}:grid-size", f"the potential at the same points differs by {dn:.3g} between a batch of exactly atgrid.size = {len(own)} points and a batch one shorter")
        elif oa[0] == "raise":
            ctx.violate("batch-size", "solve", f"{which}:grid-size:raise", f"the returned potential raised {oa[1]!r} for a batch of atgrid.size points")
        ctx.probes.hit("potential-evaluated-on-a-batch-of-grid-size")
    if oc[0] == "ok" and (bseed + ctx.step) % 6 == 3:
        # the dtype and container of the evaluation points are the caller's business too: an integer probe lattice
        # (np.mgrid, int64 or int32), single precision - same positions, same potential
        lat = np.mgrid[-2:3, -2:3, -2:3].reshape(3, -1).T
        cc = np.atleast_2d(np.asarray(c, dtype=float))[0]
        lat = lat[np.linalg.norm(lat - cc, axis=1) > 0.2]
        flav = (bseed // 6) % 3
        arg = lat.astype(np.int64) if flav == 0 else lat.astype(np.float32) if flav == 1 else lat.astype(np.int32)  # (lists are not accepted: ndarray(N, 3) is the documented type)
        od = _outcome(lambda: np.asarray(held["pot"](arg), dtype=float))
        of = _outcome(lambda: np.asarray(held["pot"](lat.astype(float)), dtype=float))
        if od[0] == "raise" and of[0] == "ok":
            ctx.violate("points-dtype", "solve", f"{which}:raise", f"the returned potential raised {od[1]!r} for evaluation points given as {('int64 array', 'float32 array', 'int32 array')[flav]}")
        elif od[0] == "ok" and of[0] == "ok":
            dd = float(np.max(np.abs(od[1] - of[1]))) / max(1.0, float(np.max(np.abs(of[1]))))
            if not np.isfinite(dd) or dd > 1e-6:
                ctx.violate("points-dtype", "solve", which, f"the potential at the same positions differs by {dd:.3g} between points given as {('int64 array', 'float32 array', 'int32 array')[flav]} and as a float64 array")
        ctx.probes.hit("potential-evaluated-at-points-of-other-dtype")
    if oc[0] == "ok" and not np.array_equal(np.asarray(held["first_after"], dtype=float), held["keep"], equal_nan=True):
        ctx.violate("result-overwritten", "solve", which, "the array returned by the potential changed when the potential was evaluated again at other points")
    if oc[0] == "ok":
        ex_b = _potential(_dens_spec(ctx, which), state["pts_b0"], c) + shift
        eb = float(np.max(np.abs(np.asarray(held["second"], dtype=float) - ex_b))) / max(1.0, float(np.max(np.abs(ex_b))))
        if not np.isfinite(eb) or eb > _acc_bound(ctx):
            ctx.violate("accuracy", "solve", which, f"second evaluation of the returned potential (other points) off by {eb:.3g}")
        oc = ("ok", held["keep"])
    sig = which
    if oc[0] == "raise":
        ctx.violate("bvp-raise", "solve", f"{sig}:{type(oc[1]).__name__}", f"solve_poisson_bvp raised {oc[1]!r} (density {which}, rng draw {beh}:{bseed}, grid {ctx.spec['grid']})")
        return
    v = np.asarray(oc[1], dtype=float)
    ndraw = ctx.rng.calls - calls0
    if ndraw:
        ctx.probes.hit("radial-solves-started-from-seam-draw", ndraw)
        ctx.states.add(f"{which}:{beh}")
    ex = _potential(spec, state["pts0"], c) + shift
    scale = max(1.0, float(np.max(np.abs(ex))))
    acc = float(np.max(np.abs(v - ex))) / scale
    ctx.stats["acc"] = max(ctx.stats["acc"], acc)
    if not np.isfinite(acc) or acc > _acc_bound(ctx):
        ctx.violate("accuracy", "solve", sig, f"potential of density {which} ({spec}) off by {acc:.3g} (> {_acc_bound(ctx)}) under rng draw {beh}:{bseed}")
    prev = state["results"].get(which)
    if prev is not None:
        sp = float(np.max(np.abs(prev - v))) / scale
        ctx.stats["spread"] = max(ctx.stats["spread"], sp)
        ctx.nontrivial = True
        if sp > _spread_bound(ctx):
            ctx.violate("draw-dependence", "solve", sig, f"potential of the same density differs by {sp:.3g} between RNG draws / histories (draw {beh}:{bseed})")
    state["results"][which] = v
    rk = (which, beh, bseed, bool(o.get("grid_b")))
    h = hash_array(v)
    if rk in state["bits"]:
        ctx.probes.hit("same-draw-repeated")
        if state["bits"][rk] != h:
            ctx.violate("not-reproducible", "solve", sig, f"identical density, grid object and RNG draw ({beh}:{bseed}) gave different bits after other solves on the same grid")
    else:
        state["bits"][rk] = h
    # linearity, as soon as all three potentials exist (each obtained under its own draw)
    r = state["results"]
    if all(k in r for k in ("rho1", "rho2", "combo")):
        d = ctx.spec["dens"]
        lin = float(np.max(np.abs(r["combo"] - d["a"] * r["rho1"] - d["b"] * r["rho2"])))
        lscale = max(1.0, float(np.max(np.abs(r["combo"]))))
        ctx.stats["lin"] = max(ctx.stats["lin"], lin / lscale / ctx.spec["grid"]["tol"])
        ctx.probes.hit("linearity-checked")
        if lin / lscale > LIN_FACTOR * ctx.spec["grid"]["tol"]:
            ctx.violate("linearity", "solve", "combo", f"V[a*rho1+b*rho2] - a*V[rho1] - b*V[rho2] = {lin:.3g} (> {LIN_FACTOR}*tol) with each solve under its own RNG draw")
    if "infer_tf" in state:
        # (runs whose radial map is a stateful object: plain potentials are kept and re-evaluated too)
        state.setdefault("held_pots", []).append((f"plain:{which}", held["pot"], v.copy(), spec, shift))
        del state["held_pots"][:-3]
    ctx.log.add(ctx.step, "solve", which, beh, bseed, h)


def _op_ivp(ctx, op, state):
    from grid.poisson import solve_poisson_ivp

    which = op[1]
    alt = len(op) > 2 and bool(op[2])
    g, c, pts = state["grid"], state["center"], state["pts"]
    spec = [t for t in _dens_spec(ctx, which) if t[0] == "s"]  # IVP solver: spherically symmetric densities
    if not spec or (ctx.spec["grid"].get("radial") or ["becke"])[0] != "becke" or ctx.spec["grid"].get("rule") in ("trap", "cc"):
        # (... and the closed rules resolve the radial integrals the IVP starts from only to ~5e-3 with 60 nodes)
        # (the IVP starts at r = 300-1000: only radial grids that reach that far - the Becke-mapped ones - are used with it)
        ctx.log.add(ctx.step, "ivp", "skip")
        return
    rho = _density(spec, g.points, c)
    # the caller reuses its one options dict: keys meant for the BVP solver must not leak (and vice versa)
    if not state["params0"]:
        state["ivp_params"] = state["params"]  # the very same (empty) dict the BVP solver saw
        ctx.probes.hit("one-options-dict-shared-by-bvp-and-ivp")
    else:
        state["ivp_params"] = state.get("ivp_params", {})
    if alt:
        ctx.probes.hit("ivp-through-map-with-other-scale")
    oc = _outcome(lambda: solve_poisson_ivp(g, rho, state["tf_ivp_alt" if alt else "tf_ivp"], r_interval=tuple(ctx.spec["grid"].get("r_interval") or (500.0, 1e-3)), ode_params=state["ivp_params"])(pts))
    if oc[0] == "raise":
        ctx.violate("ivp-raise", "ivp", type(oc[1]).__name__, f"solve_poisson_ivp raised {oc[1]!r} on the shared grid / options")
        return
    oc = ("ok", np.asarray(oc[1], dtype=float))
    ex = _potential(spec, state["pts0"], c)
    # the IVP solution covers r_interval only: points closer to the centre than its lower end are extrapolated
    r_lo = float((ctx.spec["grid"].get("r_interval") or (500.0, 1e-3))[1])
    inside = np.linalg.norm(state["pts0"] - c, axis=1) > 10 * r_lo
    acc = float(np.max(np.abs(oc[1] - ex)[inside])) / max(1.0, float(np.max(np.abs(ex))))
    if not np.isfinite(acc) or acc > ACC_BOUND:
        ctx.violate("accuracy", "ivp", which, f"IVP potential off by {acc:.3g}")
    ctx.probes.hit("ivp-on-shared-grid")
    ctx.log.add(ctx.step, "ivp", which, hash_array(oc[1]))


LAP_BOUND = 1.5e-1  # interpolate_laplacian of the analytic potential vs -4 pi rho, relative to max(1, |4 pi rho|) (measured <= 1e-2; gross errors are O(1))


def _op_laplacian(ctx, op, state):
    """interpolate_laplacian on the shared grid: the Laplacian of the analytic potential is -4 pi rho; the operation is
    exactly linear in its input; the returned function is evaluated twice (other points, one point at a time)."""
    from grid.poisson import interpolate_laplacian

    _, which = op
    g, c = state["grid"], state["center"]
    spec = _dens_spec(ctx, which)
    d = ctx.spec["dens"]
    pts = state["pts0"][2:].copy()  # generic points (not the near-centre / far ones: -4 pi rho is ~0 or steep there)
    pts2 = state["pts_b0"][2:].copy()

    def lap_of(sp):
        return interpolate_laplacian(g, _potential(sp, np.asarray(g.points), c))

    oc = _outcome(lambda: lap_of(spec))
    if oc[0] == "raise":
        ctx.violate("laplacian-raise", "laplacian", type(oc[1]).__name__, f"interpolate_laplacian raised {oc[1]!r}")
        return
    lap = oc[1]
    v = np.asarray(lap(pts), dtype=float)
    keep = v.copy()
    v2 = np.asarray(lap(pts2), dtype=float)
    if not np.array_equal(v, keep, equal_nan=True):
        ctx.violate("result-overwritten", "laplacian", which, "the array returned by the Laplacian interpolant changed when it was evaluated again")
    one = np.array([float(np.ravel(lap(pts[i:i + 1].copy()))[0]) for i in range(3)])
    if not np.allclose(one, keep[:3], rtol=1e-10, atol=1e-12):
        ctx.violate("one-point-vs-batch", "laplacian", which, f"Laplacian interpolant evaluated one point at a time differs from the batch evaluation by {np.max(np.abs(one - keep[:3])):.3g}")
    for vv, pp in ((keep, pts), (v2, pts2)):
        ex = -4 * np.pi * _density(spec, pp, c)
        err = float(np.max(np.abs(vv - ex))) / max(1.0, float(np.max(np.abs(ex))))
        ctx.stats["lap"] = max(ctx.stats.get("lap", 0.0), err)
        if not np.isfinite(err) or err > LAP_BOUND:
            ctx.violate("accuracy", "laplacian", which, f"interpolate_laplacian of the analytic potential differs from -4 pi rho by {err:.3g} (> {LAP_BOUND})")
    if which == "combo":
        l1, l2 = np.asarray(lap_of(d["rho1"])(pts)), np.asarray(lap_of(d["rho2"])(pts))
        lin = float(np.max(np.abs(keep - d["a"] * l1 - d["b"] * l2))) / max(1.0, float(np.max(np.abs(keep))))
        if lin > 1e-9:
            ctx.violate("linearity", "laplacian", "combo", f"interpolate_laplacian is not linear in its input: residual {lin:.3g}")
    ctx.probes.hit("laplacian-checked")
    ctx.log.add(ctx.step, "laplacian", which, hash_array(keep))


def _core_spec(z):
    from engines.ch_model import coulomb_table
    from grid.utils import num2sym

    t = coulomb_table()[num2sym[z]]
    return [["s", float(co), float(al)] for co, al in zip(t["coeffs_s"], t["alphas_s"])]


def _op_robust(ctx, op, state):
    from grid.robust_poisson import solve_poisson_robust

    _, kind, z, beh, bseed, o = op
    g, c, pts = state["grid"], state["center"], state["pts"]
    core = _core_spec(z)
    smooth = ctx.spec["dens"]["rho1"] if kind == "core+smooth" else []
    spec = core + [t for t in smooth if t[0] == "s"]
    rkey = ("robust", kind, z)
    if rkey not in state["rho"]:
        state["rho"][rkey] = _density(spec, g.points, c)
    rho = state["rho"][rkey]
    ctx.rng.set_behaviour(beh, bseed)
    had_fault = ctx.store.active()
    mark = len(ctx.store.fired_log)
    kw = {"ode_params": state["params"]} if o.get("shared_params", True) else {}
    gopts = dict(ctx.spec["grid"].get("opts") or {})
    bscale = gopts.pop("boundary_scale", None)
    rshift = 0.0
    if bscale is not None and not o.get("split2"):
        qs = float(sum(t[1] for t in smooth if t[0] == "s"))
        kw["boundary"] = float(bscale * qs * np.sqrt(4 * np.pi))
        ag = g.atgrids[0] if hasattr(g, "atgrids") else g
        rad = np.asarray(ag.rgrid.points)
        cut = gopts.get("remove_large_pts", 1e6)
        rshift = (float(bscale) - 1.0) * qs / float(rad.max() if cut is None else rad[rad <= cut].max())
    if gopts.pop("exact_boundary", False) and not o.get("split2") and bscale is None:
        # boundary value of the *residual* the robust solver hands to the BVP solver: charge of the smooth part
        # (with split2 the residual is what is left after the NNLS fit, whose charge the caller does not know)
        kw["boundary"] = float(sum(t[1] for t in smooth if t[0] == "s") * np.sqrt(4 * np.pi))
    kw.update(gopts)  # forwarded to solve_poisson_bvp through **bvp_kwargs, same options as the plain solves of the run
    if o.get("split2") and o.get("basis"):
        # the caller's own exponents for the second split, in the caller's own order (ascending, descending, any)
        basis = sorted({float(t[2]) for t in smooth if t[0] == "s"} | {0.35, 6.0})
        basis = (basis, basis[::-1], list(np.random.RandomState(bseed).permutation(basis)))[bseed % 3]
        kw["alphas_basis"] = np.array(basis) if (bseed // 3) % 2 else [float(b) for b in basis]
        ctx.probes.hit("second-split-with-callers-exponents")
    holder = {}

    def call_robust():
        holder["pot"] = solve_poisson_robust(g, rho, state["tf"], np.array([z]), c[None, :].copy(), split2=bool(o.get("split2")), **kw)
        return holder["pot"](pts)

    oc = _outcome(call_robust)
    fired = len(ctx.store.fired_log) > mark
    sig = f"{kind}:{z}"
    if oc[0] == "raise":
        if fired or had_fault:
            ctx.probes.hit("robust-failed-under-store-fault")
            ctx.log.add(ctx.step, "robust", sig, "raise-under-fault", type(oc[1]).__name__)
            state["robust_faulted"] = True
            return
        ctx.violate("robust-raise", "robust", f"{sig}:{type(oc[1]).__name__}", f"solve_poisson_robust raised {oc[1]!r} with no fault active")
        return
    v = np.asarray(oc[1], dtype=float)
    ex = _potential(spec, state["pts0"], c) + rshift
    scale = max(1.0, float(np.max(np.abs(ex))))
    err = float(np.max(np.abs(v - ex))) / scale
    if kind == "core" and not o.get("split2"):
        ctx.stats["core"] = max(ctx.stats["core"], err)
        if err > CORE_BOUND:
            ctx.violate("exact-core", "robust", sig, f"robust solver on its own fitted core model of Z={z} off by {err:.3g} (> {CORE_BOUND}); draw {beh}:{bseed}")
    elif err > _acc_bound(ctx):
        ctx.violate("accuracy", "robust", sig, f"robust potential off by {err:.3g}")
    rk = ("robust", kind, z, bool(o.get("split2")), (bseed % 3, (bseed // 3) % 2) if (o.get("split2") and o.get("basis")) else None)
    prev = state["results"].get(rk)
    if prev is not None:
        sp = float(np.max(np.abs(prev - v))) / scale
        ctx.nontrivial = True
        if state.get("robust_faulted") or state.get("restarted"):
            ctx.probes.hit("robust-retry-after-fault-or-restart")
        if sp > _spread_bound(ctx):
            ctx.violate("draw-dependence", "robust", sig, f"robust potential differs by {sp:.3g} between draws / after a faulted first load of the Coulomb table")
    state["results"][rk] = v
    # the potential function handed out now belongs to the caller: it is re-evaluated at the end of the run
    state.setdefault("held_pots", []).append((sig, holder["pot"], v.copy(), spec, rshift))
    del state["held_pots"][:-3]
    if kind == "core+smooth" and "rho1" in state["results"] and all(t[0] == "s" for t in ctx.spec["dens"]["rho1"]):
        # robust = analytic core + numerical residual: agrees with the plain solver on the smooth part
        d = float(np.max(np.abs(v - _potential(core, state["pts0"], c) - state["results"]["rho1"]))) / scale if bscale is None or not o.get("split2") else 0.0
        ctx.probes.hit("robust-vs-plain-compared")
        # without split2 the robust solver hands exactly the smooth part to the same BVP solver: tight agreement.  With
        # split2 most of it is solved analytically instead, so the two only agree to the plain solver's own accuracy.
        bound = 10 * LIN_FACTOR * ctx.spec["grid"]["tol"] if not o.get("split2") else _acc_bound(ctx)
        if d > bound:
            ctx.violate("robust-vs-plain", "robust", sig, f"robust(core+smooth) - core_analytic - plain(smooth) = {d:.3g}")
    ctx.log.add(ctx.step, "robust", sig, beh, bseed, hash_array(v))


def _op_tweak_params(ctx, op, state):
    """The caller loads the tabulated parameters of an element and renormalises ITS OWN copies in place."""
    from grid.coulomb import load_atomic_gaussian_params

    oc = _outcome(lambda: load_atomic_gaussian_params(op[1]))
    if oc[0] == "raise":
        ctx.log.add(ctx.step, "tweak_params", "load-failed", type(oc[1]).__name__)
        return
    cs, al = oc[1]
    try:
        cs *= 1.25
        al[: max(1, len(al) // 2)] += 0.05
    except ValueError:  # write-protected arrays: the edit is refused, fine
        ctx.probes.hit("param-edit-refused")
    ctx.probes.hit("caller-edited-its-loaded-parameters")
    state["tweaked"] = True
    ctx.log.add(ctx.step, "tweak_params", op[1])


def _check_held_potentials(ctx, state, when):
    for sig, pot, v0, hspec, hshift in state.get("held_pots", []):
        oc = _outcome(lambda: np.asarray(pot(state["pts"]), dtype=float))
        if oc[0] == "raise":
            ctx.violate("held-potential-raise", "robust", sig, f"a potential function returned earlier raises {oc[1]!r} when evaluated again ({when})")
            continue
        d = float(np.max(np.abs(oc[1] - v0))) / max(1.0, float(np.max(np.abs(v0))))
        if d > 1e-12:
            ctx.violate("held-potential-changed", "robust", sig, f"a potential function returned earlier by solve_poisson_robust now gives values differing by {d:.3g} ({when})")
        ctx.probes.hit("held-potential-re-evaluated")
        # the caller moves its probe buffer IN PLACE and asks again: the answer must be the one for the new positions,
        # i.e. what a fresh array with the same coordinates gives
        buf = state["pts"].copy()
        buf[:, 0] += 0.11  # positions this potential has not seen before, in the caller's own buffer
        first = _outcome(lambda: np.asarray(pot(buf), dtype=float))
        buf[:, 2] += 0.37
        moved = _outcome(lambda: np.asarray(pot(buf), dtype=float))
        fresh = _outcome(lambda: np.asarray(pot(buf.copy()), dtype=float))
        if first[0] == moved[0] == fresh[0] == "ok":
            dm = float(np.max(np.abs(moved[1] - fresh[1]))) / max(1.0, float(np.max(np.abs(fresh[1]))))
            if dm > 1e-12:
                ctx.violate("moved-buffer", "robust", sig, f"potential evaluated on a probe buffer that was moved in place differs by {dm:.3g} from the evaluation on a fresh array with the same coordinates")
            # ... and it must be the potential at the NEW positions (a memo keyed by a reference to the caller's buffer
            # would make both of the above agree on a stale answer)
            ex = _potential(hspec, buf, state["center"]) + hshift
            em = float(np.max(np.abs(moved[1] - ex))) / max(1.0, float(np.max(np.abs(ex))))
            if not np.isfinite(em) or em > _acc_bound(ctx):
                ctx.violate("moved-buffer", "robust", sig, f"potential evaluated on a probe buffer that was moved in place is off by {em:.3g} at the new positions")
            ctx.probes.hit("probe-buffer-moved-in-place")


def _op_regrid(ctx, op, state):
    """The caller makes another radial grid (another number of points) from the transform object it already used - a
    convergence study.  Potentials handed out earlier must not notice."""
    from grid.onedgrid import UniformInteger

    tf = state.get("infer_tf")
    if tf is None:
        ctx.log.add(ctx.step, "regrid", "skip")
        return
    oc = _outcome(lambda: tf.transform_1d_grid(UniformInteger(int(op[1]))))
    ctx.probes.hit("another-radial-grid-from-the-same-transform")
    ctx.log.add(ctx.step, "regrid", op[1], oc[0])
    _check_held_potentials(ctx, state, "after another radial grid was made from the same transform object")


def _op_perturb(ctx, op, state):
    ctx.rng.perturb(op[1], op[2])
    ctx.faults.hit("rng:perturb-history")
    ctx.log.add(ctx.step, "perturb", op[1], op[2])


def _op_arm(ctx, op, state):
    _, kind, k, frac = op
    ctx.store.arm(kind, "atomic_gauss", k, 1, frac)
    ctx.log.add(ctx.step, "arm", kind, k)


def _op_heal(ctx, op, state):
    ctx.store.heal()
    ctx.log.add(ctx.step, "heal")


def _op_restart(ctx, op, state):
    import grid.coulomb as gc

    if hasattr(gc, "_ATOMIC_GAUSS_PARAMS_CACHE"):
        gc._ATOMIC_GAUSS_PARAMS_CACHE = None
    state["restarted"] = True
    ctx.faults.hit("fault:restart-coulomb")
    ctx.log.add(ctx.step, "restart")


OPS = {"mrobust": _op_mrobust, "regrid": _op_regrid, "solve": _op_solve, "laplacian": _op_laplacian, "ivp": _op_ivp, "robust": _op_robust, "tweak_params": _op_tweak_params, "perturb": _op_perturb, "arm": _op_arm, "heal": _op_heal, "restart": _op_restart}


class PoissonSeamEngine:
    NAME = "rng-seam-poisson"
    PID = PID
    RUN_TIMEOUT_S = 900  # a run is 5-20 Poisson solves of 0.3-3 s each; generous under machine load
    LEVEL = "exploration"
    RULE = (
        "one run = one shared AtomGrid object (Gauss-Legendre/Chebyshev through BeckeRTransform, 60-70 radial nodes, degree 3-6, random centre and rotation "
        "seed), one shared options dict and a PRNG-chosen history of solve_poisson_bvp calls on rho1, rho2 and a*rho1+b*rho2 (each under its own simulator-chosen "
        "RNG draw behaviour), solve_poisson_ivp calls, solve_poisson_robust calls (fitted core model of H/C/N/O/Cl, core + smooth), RNG-history perturbations, "
        "Coulomb-table restarts and store faults on its first load; molecular runs = one shared 2-3 atom MolGrid (and a second one listing the atoms in the opposite order), "
        "plain solves of rho1, rho2, a*rho1+b*rho2 and robust solves of the summed core models on it; non-trivial = the same density solved at least twice under different draws/histories, "
        "or a robust retry after a fault/restart; distinct = distinct run digests"
    )
    STATE_MEASURE = "set of (density, RNG draw behaviour) pairs for which radial solves actually started from a seam draw"
    COMPONENTS = {
        "real": ["grid.poisson.solve_poisson_bvp / solve_poisson_ivp", "grid.robust_poisson.solve_poisson_robust", "grid.ode", "grid.atomgrid (shared object, lazy harmonic basis)",
                 "grid.coulomb (lazy parameter table, closed-form potentials)", "scipy solve_bvp / solve_ivp / nnls"],
        "stub": ["process-global NumPy RNG", "package data store (Coulomb parameter JSON served with eio/enomem/enoent/short/bitflip faults)"],
    }
    ASSUMPTIONS = [
        f"accuracy bound {ACC_BOUND} (test-suite level) inside the resolution envelope used (>=60 radial nodes, exponents 1-4, on-centre densities); measured <= 2e-4",
        f"spread between RNG draws <= max({SPREAD_BOUND}, {SPREAD_TOL_FACTOR}*tol) (measured ~1e-15 for s-type, 1e-3*tol with an l=1 component); linearity residual <= {LIN_FACTOR}*tol; exact-core identity <= {CORE_BOUND} (measured ~1e-16)",
        "density / grid space is workload: sampled, not decided; off-centre densities on an atomic grid are outside the sampled envelope",
        f"multi-centre molecular runs (2-3 atoms, own radial size / degree / rotation per atom, s-type Gaussians on the nuclei, remove_large_pts 50-100): accuracy bound {MOL_ACC_BOUND} "
        f"(test-suite level 1e-2; measured <= 3.3e-3), spread between draws <= max({SPREAD_BOUND}, {MOL_SPREAD_TOL_FACTOR}*tol) (measured <= 0.04*tol); with the default cut-off of 1e6 these solves do not converge "
        "(the library raises) and are not generated",
    ]

    def submodes(self, tier):
        if tier == "quick":
            return [("molecular", 16), ("atomic", 170)]  # (the long molecular runs are started first)
        return [("molecular", 600), ("atomic", 12000)]

    def determinism_sample(self, tier):
        return 16 if tier == "quick" else 128

    def minimise_budget(self, tier):
        return (60, 150.0)

    def max_reported_classes(self):
        return 3

    def spec_cost(self, spec):
        return 1 if "mol" in spec else 0  # a molecular run costs 10-100x an atomic one: minimise an atomic witness if there is one

    def _generate_molecular(self, seed, submode):
        rng = random.Random(seed)
        n = rng.choice([2, 2, 3])
        sep = round(rng.uniform(1.3, 2.0), 2)
        base = [[0.0, 0.0, 0.0], [0.0, 0.0, sep], [round(rng.uniform(1.1, 1.7), 2), 0.2, round(rng.uniform(-0.4, 0.6), 2)]][:n]
        shift = [round(rng.uniform(-0.5, 0.5), 2) for _ in range(3)]
        atoms = [{"z": rng.choice([1, 6, 7, 8]), "center": [round(b + s, 3) for b, s in zip(c, shift)], "nr": rng.choice([40, 46, 50]), "deg": rng.choice([11, 13, 15]),
                  "rotate": rng.choice([0, 3, 41])} for c in base]
        tol = rng.choice([1e-4, 1e-5])
        grid = {"tol": tol, "opts": {"remove_large_pts": rng.choice([50.0, 100.0, 100.0])}, "molecular": True}
        # (with the default cut-off of 1e6 the radial meshes reach r ~ 3000 and the l > 0 channels of the Becke-partitioned
        # density do not converge within any reasonable mesh: outside the resolution envelope, the library says so itself)
        mol = {"atoms": atoms, "rmin": 1e-4, "R": rng.choice([1.2, 1.5]), "pseed": rng.randrange(1000)}

        def dens():
            k = rng.randint(1, n)
            sg = rng.choice([1.0, 1.0, 1.0, -1.0])
            return [["s", sg * round(rng.uniform(0.3, 1.5), 3), round(rng.uniform(0.8, 2.0), 3), i] for i in rng.sample(range(n), k)]

        d = {"rho1": dens(), "rho2": dens(), "a": round(rng.uniform(0.3, 2.0), 3), "b": round(rng.uniform(-1.0, 1.5), 3)}
        ops = []
        for w in rng.sample(["rho1", "rho2", "combo"], 3)[: rng.choice([1, 3, 3])]:
            ops.append(["solve", w, rng.choice(BEHAVIOURS), rng.randrange(1000), {"shared_params": True, "grid_b": rng.random() < 0.3}])
        if rng.random() < 0.6:
            ops.append(["solve", rng.choice(["rho1", "rho2"]), rng.choice(BEHAVIOURS), rng.randrange(1000), {"shared_params": rng.random() < 0.7, "grid_b": rng.random() < 0.5}])
        for _ in range(rng.choice([0, 1, 1, 2, 2])):
            ops.insert(rng.randint(0, len(ops)), ["mrobust", rng.choice(["core", "core", "core+smooth", "core+fit", "core+fit"]), rng.choice(BEHAVIOURS), rng.randrange(1000), {"grid_b": rng.random() < 0.3}])
        if rng.random() < 0.3:
            ops.insert(rng.randint(0, len(ops)), ["perturb", rng.randrange(300), rng.choice([None, 3])])
        return {"engine": self.NAME, "seed": seed, "submode": submode, "grid": grid, "mol": mol, "dens": d, "ops": ops}

    def generate(self, seed, submode):
        if submode == "molecular":
            return self._generate_molecular(seed, submode)
        rng = random.Random(seed)
        ptype = rng.random() < 0.3
        grid = {
            "nr": rng.choice([60, 64, 70]), "rule": "gl", "rmin": rng.choice([1e-4, 1e-3]), "R": rng.choice([1.2, 1.5]),
            "deg": 3 if ptype else rng.choice([3, 4, 5]), "center": [round(rng.uniform(-1, 1), 2) for _ in range(3)], "rotate": rng.choice([0, 5, 99]),
            "pseed": rng.randrange(1000), "tol": 1e-4 if ptype else rng.choice([1e-4, 1e-5, 1e-6]),
        }
        # solver options are part of the configuration of a run (fixed per run so that draws / linearity stay comparable)
        opts = {}
        if rng.random() < 0.4:
            opts["remove_large_pts"] = rng.choice([100.0, None, 1e6])
        if rng.random() < 0.2 and grid["rmin"] == 1e-4:
            opts["include_origin"] = False
        if rng.random() < 0.25:
            opts["exact_boundary"] = True
        if rng.random() < 0.2:
            # an explicit boundary value other than the natural one, with a modest outer radius so that the shift shows
            opts = {"boundary_scale": rng.choice([0.0, 0.0, 0.5, 2.0]), "remove_large_pts": rng.choice([20.0, 30.0])}
            grid["far_inside"] = True
        if rng.random() < 0.2:
            grid["rule"], grid["rmin"] = rng.choice(["trap", "cc"]), 0.0
            opts.pop("include_origin", None)
            if "boundary_scale" in opts:
                opts.clear()  # (an explicit boundary value at a modest outer radius needs nodes there: the closed rules have few)
                grid.pop("far_inside", None)
            if "remove_large_pts" in opts and opts["remove_large_pts"] is None:
                opts["remove_large_pts"] = 1e6  # (keeping the node at "infinity" (1e16) in the radial ODE mesh does not converge: the library says so)
        grid["opts"] = opts
        if not ptype and rng.random() < 0.3 and grid["rule"] == "gl":
            # other radial grids / other maps for the radial ODEs (spherically symmetric densities only: the l > 0 channels
            # do not converge through the identity map), and probes beyond a modest cut-off radius
            if rng.random() < 0.5:
                grid["radial"] = rng.choice([["linfin", 1e-3, rng.choice([10.0, 14.0])], ["knowles", grid["rmin"], grid["R"], 2],
                                             [rng.choice(["exp", "power"]), 1e-6, 40.0, rng.choice([100, 120])]])
                if grid["radial"][0] in ("exp", "power"):
                    opts.clear()
                    opts["include_origin"] = False  # (these grids start at 1e-6; the r = 0 node is left out, as their users do)
                    grid["tol"] = 1e-4
                    grid["nr"] = grid["radial"][3]
            grid["ode_tf"] = rng.choice([["identity"], ["identity"], ["inv_becke", rng.choice([0.0, 1e-4]), rng.choice([1.0, 2.5])], ["inv_linfin", 0.0, rng.choice([70.0, 200.0])]])
            if "boundary_scale" not in opts and rng.random() < 0.6:
                opts["remove_large_pts"] = rng.choice([9.0, 15.0])
            if grid.get("radial", ["becke"])[0] == "linfin":
                opts.pop("include_origin", None)  # (leaving out the node at r = 0 needs many radial nodes near the origin: not on a linearly mapped grid)
        if rng.random() < 0.45:
            grid["ctor"] = rng.choice(["list", "list", "array", "matched", "sizes", "pruned"])
            grid["deg_hi"] = rng.choice([5, 5, 7]) if grid["deg"] <= 4 else 7
            if grid["ctor"] == "matched":
                grid["deg"] = 3 if grid["deg"] <= 3 else 5  # (lo - 1 must be matched back to lo)
            grid["n_inner"] = rng.choice([grid["nr"] // 3, grid["nr"] // 2, 5, grid["nr"] - 4])
        if rng.random() < 0.25 and grid.get("ctor") != "matched":
            grid["method"] = rng.choice(["spherical", "maxdet"])  # (degrees 3, 5, 7 are tabulated for both)
            if grid["deg"] == 4:
                grid["deg"] = 5
        grid["as_molgrid"] = rng.random() < 0.25
        ri = rng.choice([[500.0, 1e-3], [1000.0, 1e-4], [300.0, 1e-3]])
        grid["r_interval"] = [ri[0], max(ri[1], 2 * grid["rmin"])]  # must lie inside the transform's domain [rmin, inf)

        def dens():
            sg = rng.choice([1.0, 1.0, 1.0, -1.0])  # (a charge density may be negative everywhere: an anion, a difference density)
            out = [["s", sg * round(rng.uniform(0.3, 1.5), 3), round(rng.uniform(1.0, 4.0), 3)] for _ in range(rng.randint(1, 2))]
            if ptype and rng.random() < 0.7:
                out.append([rng.choice(["z", "x", "y", "g"]), round(rng.uniform(0.2, 0.8), 3), round(rng.uniform(1.0, 2.5), 3)])
            return out

        d = {"rho1": dens(), "rho2": dens(), "a": round(rng.uniform(0.3, 2.0), 3), "b": round(rng.uniform(-1.0, 1.5), 3)}
        ops = []
        for _ in range(rng.randint(4, 9)):
            u = rng.random()
            if u < 0.55:
                ops.append(["solve", rng.choice(["rho1", "rho2", "combo", "rho1"]), rng.choice(BEHAVIOURS), rng.randrange(1000), {"shared_params": rng.random() < 0.8, "grid_b": rng.random() < 0.25}])
            elif u < 0.66:
                ops.append(["ivp", rng.choice(["rho1", "rho2"]), rng.random() < 0.4])
            elif u < 0.69:
                ops.append(["laplacian", rng.choice(["rho1", "rho2", "combo"])])
            elif u < 0.80:
                ops.append(["robust", rng.choice(["core", "core", "core+smooth"]), rng.choice(ROBUST_ELEMENTS), rng.choice(BEHAVIOURS), rng.randrange(1000),
                            {"shared_params": rng.random() < 0.7, "split2": rng.random() < 0.25, "basis": rng.random() < 0.6}])
            elif u < 0.84:
                ops.append(["tweak_params", rng.choice(ROBUST_ELEMENTS)])
            elif u < 0.89:
                ops.append(["perturb", rng.randrange(300), rng.choice([None, 3])])
            elif u < 0.94:
                ops.append(["arm", rng.choice(["eio", "enomem", "enoent", "short", "bitflip"]), rng.randrange(3), round(rng.random(), 3)])
            elif u < 0.97:
                ops.append(["restart"])
            else:
                ops.append(["heal"])
        if (grid.get("radial") or ["becke"])[0] in ("exp", "power"):
            ops = [o for o in ops if o[0] in ("solve", "perturb")] or [["solve", "rho1", "uniform", 1, {"shared_params": True}]]
            for o in ops:
                if o[0] == "solve":
                    o[4]["grid_b"] = False
            ops.insert(rng.randint(1, len(ops)), ["regrid", rng.choice([60, 160, 200])])
            ops.append(["solve", rng.choice(["rho1", "rho2"]), rng.choice(BEHAVIOURS), rng.randrange(1000), {"shared_params": True}])
        # crash-recovery pattern on the lazily loaded Coulomb table: good answer, restart, faulted first load, heal, retry
        if rng.random() < 0.35:
            z = rng.choice(ROBUST_ELEMENTS)
            o = {"shared_params": True, "split2": False}
            pat = [["robust", "core", z, rng.choice(BEHAVIOURS), rng.randrange(1000), dict(o)], ["restart"],
                   ["arm", rng.choice(["eio", "enomem", "enoent", "short", "bitflip"]), rng.randrange(3), round(rng.random(), 3)],
                   ["robust", "core", z, rng.choice(BEHAVIOURS), rng.randrange(1000), dict(o)], ["heal"],
                   ["robust", "core", z, rng.choice(BEHAVIOURS), rng.randrange(1000), dict(o)]]
            pos = rng.randint(0, len(ops))
            ops[pos:pos] = pat
        # make linearity observable in most runs
        if rng.random() < 0.7:
            for w in ("rho1", "rho2", "combo"):
                if not any(o[0] == "solve" and o[1] == w for o in ops):
                    ops.append(["solve", w, rng.choice(BEHAVIOURS), rng.randrange(1000), {"shared_params": True}])
        return {"engine": self.NAME, "seed": seed, "submode": submode, "grid": grid, "dens": d, "ops": ops}

    def execute(self, spec, known_keys):
        ctx = Ctx(spec, known_keys)
        procstate.restore()
        np.seterr(all="ignore")
        state = {}
        import grid.ode as gode

        real_solve_bvp = gode.solve_bvp

        def recording_solve_bvp(*a, **k):
            res = real_solve_bvp(*a, **k)
            ctx.stats["nodes"] = max(ctx.stats.get("nodes", 0), int(res.x.size))
            return res

        gode.solve_bvp = recording_solve_bvp
        try:
            self._run(ctx, spec, state)
        finally:
            gode.solve_bvp = real_solve_bvp
        procstate.restore()
        return {
            "digest": ctx.log.digest(), "violations": ctx.violations, "known_hits": ctx.known_hits, "faults": dict(ctx.faults), "probes": dict(ctx.probes),
            "states": sorted(ctx.states), "nontrivial": bool(ctx.nontrivial), "steps": len(spec["ops"]), "n_ops": len(spec["ops"]), "stats": ctx.stats,
        }

    def _run(self, ctx, spec, state):
        with StoreSeam(ctx.store), ctx.rng:
            (_setup_mol if "mol" in spec else _setup)(ctx, state)
            for op in spec["ops"]:
                ctx.step += 1
                try:
                    OPS[op[0]](ctx, op, state)
                except Exception as exc:  # noqa: BLE001
                    # library code called directly by the harness (grid attributes, held potentials) failed
                    if not library_raised(exc):
                        raise
                    if ctx.store.active():
                        ctx.log.add(ctx.step, op[0], "library-raise-under-fault", type(exc).__name__)
                        continue
                    ctx.violate("library-raise", op[0], type(exc).__name__, f"library code called during {op[0]} raised {exc!r} outside the solve itself; the run ends here")
                    return
            # the caller's one options dict must still be what the caller put there
            ctx.store.heal()
            _check_held_potentials(ctx, state, "end of run")
            if not np.array_equal(state["pts"], state["pts0"]):
                ctx.violate("points-changed", "final", "points", "the evaluation-point array handed to the returned potentials was modified (later answers were computed at other points)")
            if state["params"] != state["params0"]:
                ctx.violate("options-changed", "final", "ode_params", f"the shared options dict became {state['params']}")

    def extra_coverage(self, results):
        def mx(k):
            return max([r.get("stats", {}).get(k, 0.0) for r in results] or [0.0])

        return {"max_accuracy_error_seen": mx("acc"), "max_spread_between_draws_seen": mx("spread"), "max_linearity_residual_over_tol_seen": mx("lin"),
                "max_exact_core_error_seen": mx("core"), "max_laplacian_error_seen": mx("lap"), "max_bvp_mesh_nodes_seen": int(mx("nodes")), "mesh_cap": MAX_NODES, "bounds": {"accuracy": ACC_BOUND, "spread": SPREAD_BOUND, "linearity_over_tol": LIN_FACTOR, "exact_core": CORE_BOUND}}

    def list_paths(self, spec):
        return [("ops",)]

    def simplify(self, spec):
        for w in ("rho1", "rho2"):
            if len(spec["dens"][w]) > 1:
                s2 = copy.deepcopy(spec)
                s2["dens"][w] = s2["dens"][w][:1]
                yield s2
        for i, op in enumerate(spec["ops"]):
            if op[0] in ("solve", "robust"):
                bi = 2 if op[0] == "solve" else 3
                if op[bi] != "uniform":
                    s2 = copy.deepcopy(spec)
                    s2["ops"][i][bi] = "uniform"
                    yield s2
