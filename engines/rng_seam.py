"""C15 / C16 - solvers under the hidden global RNG and shared state (narrow scope, DESIGN.md section 3).

`solve_ode_bvp` draws its default initial guess from the process-global NumPy RNG; `solve_poisson_bvp`
and `solve_poisson_robust` never pass a guess, so every radial solve starts from that hidden source.
The simulator owns the source (simkit.rngseam): which numbers are drawn, what used the RNG before, and
in which order solver calls interleave is decided by the run PRNG.  ODE / density space is workload.
"""

from __future__ import annotations

import copy
import random
import weakref

import numpy as np

from simkit import procstate
from simkit.addr import build_at_released_address
from simkit.core import library_raised, Counter, EventLog, Violation, hash_array
from simkit.rngseam import BEHAVIOURS, RngSeam
from simkit.store import SimStore, StoreSeam

from . import ode_problems as OP

# error envelope: |error| <= ENVELOPE * tol * scale  (calibrated on the unchanged tree, see DESIGN.md)
ODE_ENVELOPE = 5.0e3
IVP_ENVELOPE = 3.0e3
# mesh budget handed to solve_ode_bvp: the library's default of 5000 nodes is a resource limit, not part of the property;
# stiff admissible maps (Handy m = 3 at tol 1e-8) legitimately need more
MAX_NODES = 50000


class Ctx:
    def __init__(self, pid, spec, known):
        self.pid = pid
        self.spec = spec
        self.known = known
        self.log = EventLog()
        self.faults = Counter()
        self.probes = Counter()
        self.states = set()
        self.violations = []
        self.known_hits = []
        self.step = 0
        self.nontrivial = False
        self.rng = RngSeam(self.faults, None)
        self.store = SimStore(self.faults, None)
        self.max_ratio = 0.0
        self.max_spread = 0.0

    def violate(self, inv, opkind, sig, detail):
        cls = f"{self.pid}:{inv}:{opkind}"
        key = f"{cls}:{sig}"
        if key in self.known:
            self.known_hits.append(key)
            self.log.add(self.step, "known", key)
            return
        self.violations.append(Violation(cls, key, detail, self.step))
        self.log.add(self.step, "VIOLATION", key)


def _outcome(fn):
    try:
        return ("ok", fn())
    except BaseException as exc:  # noqa: BLE001
        if isinstance(exc, (KeyboardInterrupt, SystemExit)) or type(exc).__name__ == "_RunTimeout":
            raise
        return ("raise", exc)


# ================================================================================================
# C15 - ODE
# ================================================================================================


def _tname(tspec):
    if tspec is None:
        return "none"
    if tspec[0] == "inv":
        return "inv_" + tspec[1][0]
    return tspec[0]


def _explicit_twin(tspec, xmax):
    """Same map with the inferred scale written out (harness-side boundary conversions never touch the
    object handed to the solver)."""
    if tspec is None:
        return None
    t = copy.deepcopy(tspec)
    if t[0] in ("exp", "power", "lininf") and t[3] is None:
        t[3] = float(xmax)
    return OP.build_transform(t)


def _bd_cond(P, twin):
    a, b = P["a"], P["b"]
    ends = (a, b)
    bd = []
    for i, j in P["bc"]:
        e = np.array([ends[i]])
        val = OP.sol_deriv(P["terms"], j, e)[0]
        if twin is not None and j >= 1:
            g1 = float(np.atleast_1d(twin.deriv(e))[0])
            y1 = OP.sol_deriv(P["terms"], 1, e)[0]
            if j == 1:
                val = y1 / g1
            else:
                g2 = float(np.atleast_1d(twin.deriv2(e))[0])
                val = (val - y1 / g1 * g2) / g1**2
        bd.append([int(i), int(j), float(val)])
    return bd


def _amp(P):
    return float(P.get("amp", 1.0))


def _errors(P, ys, xe, relative=False):
    K = P["order"]
    ys = np.atleast_2d(ys)
    out = []
    # BVP: SciPy's collocation tolerance is relative to (1 + |f|), i.e. absolute for small solutions - scale max(1, |y|).
    # IVP (relative=True): rtol/atol semantics - errors are measured relative to the size of the solution (`amp`).
    # Either way one common scale for all rows: the solvers control the whole state vector (y, y', y'') at once, so a row
    # that happens to be ~0 (y'' of a linear solution of size 1e5) is not resolved to an absolute 1e-6.
    amp = float(P.get("amp", 1.0)) if relative else 1.0
    exs = [OP.sol_deriv(P["terms"], k, xe) for k in range(min(K, ys.shape[0]))]
    big = max(float(np.max(np.abs(ex))) for ex in exs)
    scale = amp * max(1.0, big / amp)
    for k, ex in enumerate(exs):
        out.append(float(np.max(np.abs(ys[k] - ex))) / scale)
    return out


def _op_bvp(ctx, op, state):
    from grid.ode import solve_ode_bvp

    _, mode, beh, bseed, o = op
    P = ctx.spec["problem"]
    tlist = [P["tspec"]] + list(P.get("alts") or [])
    ti = int(o.get("ti", 0)) % len(tlist)
    tspec = tlist[ti] if mode == "tf" else None
    a, b = P["a"], P["b"]
    x = np.linspace(a, b, P["n"])
    dense = int(o.get("dense") or 0)
    if dense:
        # a caller that starts from a fine mesh (and, in half of these, leaves the node budget at the library's default
        # of 5000): the budget and the mesh size are related arguments
        x = np.linspace(a, b, dense)
        ctx.probes.hit("bvp-on-dense-initial-mesh")
    if tspec is not None:
        shared = state.setdefault("tf_shared", {})
        if o.get("share_tf"):
            # a long-lived transform object reused by several solves (its remembered scale persists)
            if ti in shared:
                ctx.probes.hit("transform-object-shared-between-solves")
            tf = shared.setdefault(ti, OP.build_transform(tspec))
        else:
            # a short-lived transform. The simulator also owns *when* the previous short-lived transform (and the
            # solution closure that refers to it) is released: it is kept alive until this very moment and dropped
            # immediately before the new object is built, so that CPython's allocator hands the new transform the
            # address of the released one - a legal, otherwise timing-dependent event (object identity reuse).
            cls, cargs, ckw = OP.transform_ctor(tspec)  # everything except the outermost object is ready beforehand
            held = state.pop("held", None)
            target = id(held[0]) if held is not None else None
            wr = weakref.ref(held[0]) if held is not None else None
            held = None
            if wr is not None and wr() is not None:
                ctx.probes.hit("released-transform-still-referenced")
                target = None
            tf, landed = build_at_released_address(target, cls, cargs, ckw)
            if target is not None:
                ctx.probes.hit("short-lived-transform-built-right-after-release")
                if landed:
                    ctx.probes.hit("new-transform-allocated-at-released-address")
        if ti:
            ctx.probes.hit("solve-through-alternate-transform")
    else:
        tf = None
    twin = _explicit_twin(tspec, x.max())
    if twin is not None:
        r = np.asarray(twin.transform(x.copy()), dtype=float)
        if not (np.all(np.isfinite(r)) and np.all(np.diff(r) > 0)):
            ctx.log.add(ctx.step, "bvp", "skip-not-increasing")
            return
    fx, coeffs = OP.make_callables(P)
    if o.get("reentrant"):
        # a right-hand side that itself uses the library while the outer solve is in progress (nested solve of a
        # small unrelated problem through its own transform, plus a transform evaluation): re-entrancy must be harmless
        fx0 = fx

        def fx(xx, fx0=fx0):
            _nested_library_use(state)
            return fx0(xx)

        ctx.probes.hit("re-entrant-callback")
    bd = _bd_cond(P, twin)
    if not o.get("own_inputs") and not o.get("reentrant") and not dense:
        # the caller's own input objects (mesh array, coefficient list, boundary lists) are created once per run and
        # handed to every solve: a solver that edits them changes what the *next* solve of the same problem sees
        sh = state.setdefault("shared", {})
        x = sh.setdefault("x", x)
        if "fx" not in sh:
            sh["fx"], sh["coeffs"] = fx, coeffs
        fx, coeffs = sh["fx"], sh["coeffs"]
        bd = sh.setdefault(("bd", mode if mode == "direct" else f"tf{ti}"), bd)
        ctx.probes.hit("caller-inputs-shared-between-solves")
    derivs = bool(o.get("derivs", True))
    guess = None
    if o.get("guess") == "zeros":
        guess = np.zeros((P["order"], x.size))
    elif o.get("guess") == "ones":
        guess = np.ones((P["order"], x.size))
    elif o.get("guess") == "big":
        guess = np.full((P["order"], x.size), 1.0e3)
    elif o.get("guess") == "exact":
        # the caller already knows the answer (y and its x-derivatives on the mesh): a good guess must not hurt
        guess = np.array([OP.sol_deriv(P["terms"], k, np.asarray(x, dtype=float)) for k in range(P["order"])], dtype=float)
    ctx.rng.set_behaviour(beh, bseed)
    calls0 = ctx.rng.calls
    budget = {} if (dense and o.get("default_budget")) else {"max_nodes": MAX_NODES}
    if o.get("budget") and not dense:
        # a caller that allows only a few mesh nodes: the library may well say "did not converge" - but if it returns a
        # solution, that solution has to be right
        budget = {"max_nodes": max(int(o["budget"]), int(x.size) + 2)}
        ctx.probes.hit("bvp-with-small-node-budget")
    oc = _outcome(lambda: solve_ode_bvp(x, fx, coeffs, bd, transform=tf, tol=P["tol"], initial_guess_y=guess, no_derivatives=not derivs, **budget))
    drew = ctx.rng.calls > calls0
    if oc[0] == "raise" and (not budget or o.get("budget")) and "converge" in str(oc[1]):
        # with the default budget of 5000 nodes a fine mesh may leave no room for the refinement a tight tolerance asks
        # for: the library says so, which is fine
        ctx.probes.hit("dense-mesh-default-budget-exhausted")
        ctx.log.add(ctx.step, "bvp", "budget-exhausted")
        return
    sig = f"{P['order']}:{_tname(tspec)}"
    mode_key = mode if mode == "direct" else f"tf{ti}"
    tol_used = P["tol"]
    if oc[0] == "raise" and "converge" in str(oc[1]):
        # an over-ambitious tolerance may be out of reach through a stiff map (rounding-limited residual): the library
        # says so honestly.  It must then succeed - and be accurate - at a tolerance 100x (at most 10^4 x) looser.
        for loosen in (1e2, 1e4):
            ctx.rng.set_behaviour(beh, bseed)
            oc2 = _outcome(lambda: solve_ode_bvp(x, fx, coeffs, bd, transform=tf, tol=P["tol"] * loosen, initial_guess_y=guess, no_derivatives=not derivs, **budget))
            if oc2[0] == "ok":
                oc = oc2
                tol_used = P["tol"] * loosen
                ctx.probes.hit("tolerance-out-of-reach-retried-looser")
                break
    if oc[0] == "raise":
        ctx.violate("bvp-raise", "bvp", f"{sig}:{type(oc[1]).__name__}", f"solve_ode_bvp raised {oc[1]!r} on an admitted problem (order {P['order']}, transform {tspec}, rng draw {beh}:{bseed})")
        return
    sol = oc[1]
    xe = np.linspace(a, b, (7, 25, 41, 64)[(bseed + ctx.step) % 4])
    oe = _outcome(lambda: np.asarray(sol(xe.copy()), dtype=float))
    if oe[0] == "raise":
        exc = oe[1]
        # known limitation recorded as workload-level (not seam): see DESIGN; keyed by transform
        ctx.violate("eval-raise", "bvp", f"{sig}:{type(exc).__name__}", f"solution callable raised {exc!r} (order {P['order']}, transform {tspec}, derivatives={derivs})")
        return
    ys = oe[1]
    xc = np.linspace(a, b, 25)
    yc = np.asarray(sol(xc.copy()), dtype=float)
    errs = [max(e1, e2) for e1, e2 in zip(_errors(P, ys, xe), _errors(P, yc, xc))]
    ratio = max(errs) / tol_used
    ctx.max_ratio = max(ctx.max_ratio, ratio)
    if not np.isfinite(ratio) or ratio > ODE_ENVELOPE:
        ctx.violate(
            "accuracy", "bvp", sig,
            f"solve_ode_bvp error {max(errs):.3g} (per derivative {['%.2g' % e for e in errs]}) exceeds {ODE_ENVELOPE:g}*tol={ODE_ENVELOPE * tol_used:.2g} "
            f"(order {P['order']}, transform {tspec}, bc {P['bc']}, rng draw {beh}:{bseed}, guess={o.get('guess')})",
        )
    state["loosest_tol"] = max(state.get("loosest_tol", 0.0), tol_used)
    key = (mode_key, derivs)
    prev = state["results"].get(key)
    y0 = np.atleast_2d(yc)[0]
    if derivs and np.atleast_2d(ys).shape[0] != P["order"]:
        ctx.violate("missing-derivatives", "bvp", sig, f"solution callable returned {np.atleast_2d(ys).shape[0]} rows for an order-{P['order']} problem with derivatives requested ({len(xe)} points)")
    if prev is not None:
        spread = float(np.max(np.abs(prev - y0))) / max(1.0, float(np.max(np.abs(prev))))
        ctx.max_spread = max(ctx.max_spread, spread / P["tol"])
        if spread > 2 * ODE_ENVELOPE * max(tol_used, state.get("loosest_tol", 0.0)):
            ctx.violate("draw-dependence", "bvp", sig, f"results for different RNG draws differ by {spread:.3g} (order {P['order']}, transform {tspec}, draw {beh}:{bseed})")
        ctx.nontrivial = True
    else:
        state["results"][key] = y0
    others = [v for (mk, dv), v in state["results"].items() if mk != mode_key and dv == derivs]
    for other in others:
        d = float(np.max(np.abs(other - y0))) / max(1.0, float(np.max(np.abs(other))))
        if d > 2 * ODE_ENVELOPE * max(tol_used, state.get("loosest_tol", 0.0)):
            ctx.violate("transform-vs-direct", "bvp", sig, f"solution through transform {tspec} ({mode_key}) differs from the solution obtained directly / through another transform by {d:.3g}")
        ctx.probes.hit("transform-vs-direct-compared")
    # results handed out earlier belong to the caller: a later evaluation (same number of points, other points) must
    # not change them
    keep = yc.copy()
    # ... and the points of the second evaluation come in no particular order (shuffled / descending / with repeats)
    x2 = np.linspace(a + 0.013 * (b - a), b - 0.021 * (b - a), 25)
    rs2 = np.random.RandomState((bseed * 31 + ctx.step) % (2**32))
    x2 = x2[rs2.permutation(25)] if (bseed + ctx.step) % 3 else x2[::-1].copy()
    if (bseed + ctx.step) % 5 == 0:
        x2[3] = x2[11]
    o2 = _outcome(lambda: np.asarray(sol(x2), dtype=float))
    if o2[0] == "ok":
        if not np.array_equal(yc, keep, equal_nan=True):
            ctx.violate("result-overwritten", "bvp", sig, "an array returned by the solution callable changed when the callable was evaluated again at other points")
        e2 = _errors(P, o2[1], x2)
        if max(e2) / tol_used > ODE_ENVELOPE:
            ctx.violate("accuracy", "bvp", sig, f"second evaluation of the solution callable is off by {max(e2):.3g}")
    if (bseed + ctx.step) % 7 == 0:
        # how many points go into one call is the caller's business: the value at a point does not depend on its company
        nbig = (1, 300, 2500)[(bseed // 7) % 3]
        big = np.random.RandomState(bseed + 5).uniform(min(a, b), max(a, b), size=nbig)
        ob = _outcome(lambda: np.atleast_2d(np.asarray(sol(big.copy()), dtype=float)))
        if ob[0] == "raise":
            ctx.violate("batch-size", "bvp", f"{sig}:raise", f"the solution callable raised {ob[1]!r} for {nbig} points in one call")
        elif ob[1].shape[-1] != nbig:
            ctx.violate("batch-size", "bvp", f"{sig}:shape", f"the solution callable returned shape {ob[1].shape} for {nbig} points")
        else:
            sel = np.unique(np.concatenate([np.random.RandomState(bseed).randint(nbig, size=7), [0, nbig - 1]]))
            sub = np.atleast_2d(np.asarray(sol(big[sel].copy()), dtype=float))
            db = float(np.max(np.abs(ob[1][:, sel] - sub))) / max(1.0, float(np.max(np.abs(sub))))
            if not np.isfinite(db) or db > 1e-9:
                ctx.violate("batch-size", "bvp", sig, f"the solution at the same points differs by {db:.3g} between a call with {nbig} points and a call with {len(sel)} of them")
        ctx.probes.hit("solution-evaluated-at-%d-points" % nbig)
    if (bseed + ctx.step) % 7 == 3:
        # single-precision evaluation points: the same positions as float64 give the same values (to single precision)
        x32 = np.linspace(min(a, b), max(a, b), 9)[1:-1].astype(np.float32)
        o32 = _outcome(lambda: np.atleast_2d(np.asarray(sol(x32.copy()), dtype=float)))
        o64 = _outcome(lambda: np.atleast_2d(np.asarray(sol(x32.astype(np.float64)), dtype=float)))
        if o32[0] == "raise" and o64[0] == "ok":
            ctx.violate("points-dtype", "bvp", f"{sig}:raise", f"the solution callable raised {o32[1]!r} for float32 evaluation points")
        elif o32[0] == "ok" and o64[0] == "ok" and o32[1].shape == o64[1].shape:
            d32 = float(np.max(np.abs(o32[1] - o64[1]))) / max(1.0, float(np.max(np.abs(o64[1]))))
            if not np.isfinite(d32) or d32 > 1e-3:
                ctx.violate("points-dtype", "bvp", sig, f"the solution at the same positions differs by {d32:.3g} between float32 and float64 evaluation points")
        ctx.probes.hit("solution-evaluated-at-float32-points")
    if not derivs:
        # a scalar point must give the same value as a one-element array (the closure has a branch for it)
        xs = float(xc[7])
        osc = _outcome(lambda: np.asarray(sol(xs), dtype=float))
        if osc[0] == "ok":
            vs = float(np.ravel(osc[1])[0])
            if abs(vs - float(y0[7])) > 1e-12 * max(abs(float(y0[7])), 1e-300) and abs(vs - float(y0[7])) > 1e-300:
                ctx.violate("scalar-vs-array", "bvp", sig, f"solution callable at the scalar {xs} gives {vs}, at the array element {float(y0[7])}")
            ctx.probes.hit("scalar-evaluation-compared")
    h = hash_array(yc)
    rk = (mode_key, beh, bseed, derivs, o.get("guess"), bool(o.get("share_tf")), dense, bool(o.get("default_budget")), o.get("budget"))
    if o.get("share_tf"):
        pass  # sharing changes the object history, bit-equality is only demanded for fresh transforms
    elif rk in state["bits"]:
        ctx.probes.hit("same-draw-repeated")
        ctx.nontrivial = True
        if state["bits"][rk] != h:
            ctx.violate("not-reproducible", "bvp", sig, f"identical inputs and identical RNG draw ({beh}:{bseed}) gave a different result after other calls / RNG history")
    else:
        state["bits"][rk] = h
    if drew:
        ctx.probes.hit("guess-drawn-from-seam")
        ctx.states.add(f"{P['order']}:{_tname(tspec)}:{beh}")
    ctx.log.add(ctx.step, "bvp", mode_key, beh, bseed, h)
    _recheck_held(ctx, state, sig)
    if o.get("share_tf") or tf is None:
        # (solutions through short-lived transforms are released on purpose, see below; the others are kept and re-checked)
        state.setdefault("held_sols", []).append((sig, sol, xc.copy(), yc.copy()))
        del state["held_sols"][:-2]
    if tf is not None and not o.get("share_tf"):
        state["held"] = (tf, sol)  # released by the simulator right before the next short-lived transform is built


def _nested_library_use(state):
    """Called from inside a user callback: a complete small solve of another problem + transform evaluations."""
    from grid.ode import solve_ode_bvp
    from grid.rtransform import BeckeRTransform, ExpRTransform

    state["nested"] = state.get("nested", 0) + 1
    if state["nested"] % 7 != 1:  # not on every invocation: keeps the cost bounded
        return
    xx = np.linspace(-0.5, 0.5, 6)
    sol = solve_ode_bvp(xx, lambda t: 0.0 * t + 1.0, [1.0, 0.0, 1.0], [[0, 0, 0.0], [1, 0, 0.0]], transform=BeckeRTransform(0.1, 1.3), tol=1e-3,
                        initial_guess_y=np.zeros((2, 6)), no_derivatives=False)
    sol(np.array([0.0, 0.2]))
    ExpRTransform(0.1, 5.0).transform(np.arange(4.0))


def _recheck_held(ctx, state, sig):
    """Solution callables handed out by earlier solves of this run must still give what they gave."""
    for name, sol, xs, v0 in state.get("held_sols", []):
        oc = _outcome(lambda: np.asarray(sol(xs.copy()), dtype=float))
        if oc[0] == "raise":
            ctx.violate("held-solution-raise", "bvp", name, f"a solution callable returned earlier raises {oc[1]!r} after later solves")
        elif oc[1].shape != v0.shape or not np.allclose(oc[1], v0, rtol=1e-12, atol=1e-300, equal_nan=True):
            ctx.violate("held-solution-changed", "bvp", name, "a solution callable returned by an earlier solve gives different values after later solves / evaluations")
        ctx.probes.hit("held-solution-re-evaluated")
        buf = xs.copy()
        buf *= 0.999  # values this callable has not seen before, in the caller's own buffer
        first = _outcome(lambda: np.asarray(sol(buf), dtype=float))
        buf += 0.01 * (xs[-1] - xs[0]) * np.linspace(0.2, -0.2, buf.size)  # the caller moves its evaluation buffer in place
        moved = _outcome(lambda: np.asarray(sol(buf), dtype=float))
        fresh = _outcome(lambda: np.asarray(sol(buf.copy()), dtype=float))
        if first[0] == moved[0] == fresh[0] == "ok" and not np.allclose(moved[1], fresh[1], rtol=1e-12, atol=1e-300, equal_nan=True):
            ctx.violate("moved-buffer", "bvp", name, "solution callable evaluated on a buffer that was moved in place differs from the evaluation on a fresh array with the same values")


def _op_ivp(ctx, op, state):
    from grid.ode import solve_ode_ivp

    _, mode, method = op[:3]
    P = ctx.spec["problem"]
    tlist = [P["tspec"]] + list(P.get("alts") or [])
    ti = int(op[3]) % len(tlist) if len(op) > 3 else 0
    tspec = tlist[ti] if mode == "tf" else None
    a, b = P["a"], P["b"]
    tf = OP.build_transform(tspec) if tspec is not None else None
    twin = _explicit_twin(tspec, max(a, b))
    if twin is not None:
        r = np.asarray(twin.transform(np.linspace(min(a, b), max(a, b), 9)), dtype=float)
        # (an initial-value problem can be integrated through a decreasing map just as well: strictly monotone is enough)
        if not (np.all(np.isfinite(r)) and (np.all(np.diff(r) > 0) or np.all(np.diff(r) < 0))):
            ctx.log.add(ctx.step, "ivp", "skip-not-monotone")
            return
        if np.all(np.diff(r) < 0):
            ctx.probes.hit("ivp-through-decreasing-map")
        if tspec[0] in ("exp", "power", "lininf") and tspec[3] is None:
            if (P["n"] + ctx.step) % 2 or method != "DOP853":
                # the caller fixes the scale itself ... (always so for the lower-order / implicit integrators: a scale
                # taken from the starting point makes the map several times steeper, where they lose 3-5 digits)
                tf = twin
            else:
                # ... or leaves it to the transform, which takes it from the first thing it sees (the starting point):
                # whatever scale that is, the answer is the same function of the original variable
                ctx.probes.hit("ivp-through-scale-inferring-transform")
    reverse = len(op) > 4 and bool(op[4])
    if reverse:
        a, b = b, a  # integrate from the upper end down to the lower end (a decreasing span, as solve_poisson_ivp does)
        ctx.probes.hit("ivp-decreasing-span")
    y0kind = op[5] if len(op) > 5 else None
    if y0kind and _amp(P) == 1.0:
        # initial data that happen to be whole numbers, written down as Python ints / an integer ndarray: the same
        # manufactured problem plus a polynomial of degree order-1 that moves y, y', y'' at the starting point onto integers
        P = copy.deepcopy(P)
        cur = [float(OP.sol_deriv(P["terms"], k, np.array([a]))[0]) for k in range(P["order"])]
        corr = np.polynomial.Polynomial([0.0])
        fact = 1.0
        for k in range(P["order"]):
            fact *= max(k, 1)
            corr = corr + (np.round(cur[k]) - cur[k]) / fact * np.polynomial.Polynomial([-a, 1.0]) ** k
        P["terms"] = list(P["terms"]) + [["poly", [float(c) for c in corr.coef]]]
        ctx.probes.hit("ivp-integer-typed-initial-values")
    else:
        y0kind = None
    fx, coeffs = OP.make_callables(P)
    y0 = [float(OP.sol_deriv(P["terms"], k, np.array([a]))[0]) for k in range(P["order"])]
    sh = state.setdefault(("shared" if not reverse else "shared_rev") + (":" + y0kind if y0kind else ""), {})
    kind = ("array", "list", "array", "tuple")[(P["n"] + P["order"]) % 4]
    if "y0" not in sh:
        if y0kind:
            yi = [int(round(v)) for v in y0]
            sh["y0"] = np.array(yi, dtype=int) if y0kind == "int_array" else yi
        else:
            sh["y0"] = np.array(y0, dtype=float) if kind == "array" else (tuple(y0) if kind == "tuple" else list(y0))
    y0 = sh["y0"]  # one initial-data object for every IVP solve of the run (direct and through the transform)
    rtol = 1e-10
    # absolute tolerance: 1e-10 for O(1) solutions; for tiny / huge solutions purely relative control (atol = 0, legal in SciPy)
    positive = P["order"] == 1 and all(t[0] == "exp" and t[1] > 0 for t in P["terms"])
    atol = 0.0 if (positive and _amp(P) != 1.0) else 1e-10 * _amp(P)
    if atol == 0.0:
        ctx.probes.hit("ivp-purely-relative-tolerance")
    no_derivs = len(op) > 6 and bool(op[6])  # only y(x) wanted (one row / a 1-D result through a transform)
    span = (a, b) if (P["n"] % 3) else [a, b]
    oc = _outcome(lambda: solve_ode_ivp(span, fx, coeffs, y0, transform=tf, method=method, no_derivatives=no_derivs, rtol=rtol, atol=atol))
    sig = f"{P['order']}:{_tname(tspec)}:{method}"
    if oc[0] == "raise":
        ctx.violate("ivp-raise", "ivp", f"{sig}:{type(oc[1]).__name__}", f"solve_ode_ivp raised {oc[1]!r} (order {P['order']}, transform {tspec}, method {method})")
        return
    xe = np.linspace(min(a, b), max(a, b), 25)
    oe = _outcome(lambda: np.asarray(oc[1](xe.copy()), dtype=float))
    if oe[0] == "raise":
        ctx.violate("eval-raise", "ivp", f"{sig}:{type(oe[1]).__name__}", f"IVP solution callable raised {oe[1]!r} (transform {tspec})")
        return
    keep = oe[1].copy()
    xr = np.linspace(min(a, b), max(a, b), 25)[np.random.RandomState(ctx.step + P["n"]).permutation(25)]
    o2 = _outcome(lambda: np.asarray(oc[1](xr.copy()), dtype=float))
    if o2[0] == "ok" and not np.array_equal(oe[1], keep, equal_nan=True):
        ctx.violate("result-overwritten", "ivp", sig, "an array returned by the IVP solution callable changed when the callable was evaluated again at other points")
    if o2[0] == "ok":
        e2 = _errors(P, o2[1], xr, relative=True)
        if not np.isfinite(max(e2)) or max(e2) / 1e-8 > IVP_ENVELOPE:
            ctx.violate("accuracy", "ivp", sig, f"IVP solution evaluated at unordered points is off by {max(e2):.3g} (order {P['order']}, transform {tspec}, method {method})")
    errs = _errors(P, oe[1], xe, relative=True)
    ratio = max(errs) / 1e-8
    ctx.probes.hit("ivp-solved")
    state["ivp_ratio"] = max(state.get("ivp_ratio", 0.0), ratio)
    if not np.isfinite(ratio) or ratio > IVP_ENVELOPE:
        ctx.violate("accuracy", "ivp", sig, f"solve_ode_ivp error {max(errs):.3g} exceeds the envelope (order {P['order']}, transform {tspec}, method {method})")
    ctx.log.add(ctx.step, "ivp", mode, method, hash_array(oe[1]))


def _op_scaled(ctx, op, state):
    """A problem posed on a small length scale L (an interval [0, 5 L] with L down to a nanometre in metres) and solved
    directly and through the inverse of a linear map that rescales it to a dimensionless variable - an admissible map
    with a tiny slope.  Errors are measured relative to the size of y and of y' (which is O(1/L))."""
    from grid.ode import solve_ode_bvp, solve_ode_ivp
    from grid.rtransform import InverseRTransform, LinearFiniteRTransform, LinearInfiniteRTransform

    _, L, kind, mi, seed = op
    if kind == "bvp" and mi % 3 == 0:
        mi = 1 + seed % 2  # (in the raw variable y' is O(1/L): the collocation solver's absolute tolerance is out of reach there)
    r = np.random.RandomState(seed % (2**32))
    A, w, ph = r.uniform(0.5, 1.5), r.uniform(0.5, 2.0), r.uniform(0.0, 6.0)
    c0, c1 = r.uniform(1.0, 3.0), r.uniform(0.5, 2.0)
    u = lambda t: A * np.sin(w * t / L + ph) + (t / L) ** 2  # noqa: E731
    du = lambda t: A * w / L * np.cos(w * t / L + ph) + 2 * t / L**2  # noqa: E731
    ddu = lambda t: -A * (w / L) ** 2 * np.sin(w * t / L + ph) + 2 / L**2  # noqa: E731
    coeffs = [c0, c1 * L, L**2]
    fx = lambda t: coeffs[2] * ddu(t) + coeffs[1] * du(t) + coeffs[0] * u(t)  # noqa: E731
    a, b = 0.0, 5.0 * L
    tf = (None, InverseRTransform(LinearFiniteRTransform(a, b)), InverseRTransform(LinearInfiniteRTransform(a, b, b=5.0)))[mi % 3]
    sig = f"scaled:{kind}:{('direct', 'inv_linfinite', 'inv_lininf')[mi % 3]}"
    ctx.rng.set_behaviour("uniform", seed)
    if kind == "ivp":
        oc = _outcome(lambda: solve_ode_ivp((a, b), fx, coeffs, [float(u(a)), float(du(a))], transform=tf, method="DOP853", no_derivatives=False, rtol=1e-10, atol=1e-10))
    else:
        oc = _outcome(lambda: solve_ode_bvp(np.linspace(a, b, 40), fx, coeffs, [[0, 0, float(u(a))], [1, 0, float(u(b))]], transform=tf, tol=1e-8, max_nodes=MAX_NODES, no_derivatives=False))
    if oc[0] == "raise":
        ctx.violate("scaled-raise", kind, f"{sig}:{type(oc[1]).__name__}", f"solve_ode_{kind} raised {oc[1]!r} for a problem on [0, {b:g}] (length scale {L:g}) through {sig}")
        return
    te = np.linspace(a, b, 33)[1:-1]
    oe = _outcome(lambda: np.atleast_2d(np.asarray(oc[1](te.copy()), dtype=float)))
    if oe[0] == "raise":
        ctx.violate("scaled-raise", kind, f"{sig}:eval:{type(oe[1]).__name__}", f"the solution callable raised {oe[1]!r} (length scale {L:g}, {sig})")
        return
    e0 = float(np.max(np.abs(oe[1][0] - u(te)))) / max(1.0, float(np.max(np.abs(u(te)))))
    e1 = float(np.max(np.abs(oe[1][1] - du(te)))) / float(np.max(np.abs(du(te)))) if oe[1].shape[0] > 1 else 0.0
    if not np.isfinite(e0 + e1) or max(e0, e1) > 1e-5:
        ctx.violate("accuracy", kind, sig, f"problem on the length scale {L:g}: relative error {e0:.3g} in y, {e1:.3g} in y' ({sig})")
    ctx.probes.hit("problem-on-small-length-scale")
    ctx.log.add(ctx.step, "scaled", kind, mi % 3, L, hash_array(oe[1]))


def _op_perturb(ctx, op, state):
    ctx.rng.perturb(op[1], op[2])
    ctx.faults.hit("rng:perturb-history")
    ctx.log.add(ctx.step, "perturb", op[1], op[2])


class OdeSeamEngine:
    NAME = "rng-seam-ode"
    RUN_TIMEOUT_S = 600  # generous: a run normally takes well under a second, but the machine may be heavily loaded
    PID = "C15"
    LEVEL = "exploration"
    RULE = (
        "one run = one manufactured linear ODE (order 1-3, exact solution known, admitted only if an independent first-order-system reference "
        "reaches 1/10 of the envelope) plus a PRNG-chosen sequence of solve_ode_bvp calls (direct / through a transform, with the guess drawn from the "
        "simulator-owned global RNG under 7 draw behaviours incl. all-zero, all-(1-eps), alternating, spike, ramp), solve_ode_ivp calls, RNG-history "
        "perturbations and exact repeats; non-trivial = at least two solves of the same problem under different draws/histories, or a repeated draw; "
        "distinct = distinct run digests"
    )
    STATE_MEASURE = "set of (ODE order, transform family, RNG draw behaviour) triples for which a guess was actually drawn through the seam"
    COMPONENTS = {
        "real": ["grid.ode.solve_ode_bvp / solve_ode_ivp", "grid.rtransform (12 transform classes incl. InverseRTransform)", "scipy.integrate.solve_bvp / solve_ivp", "sympy.bell"],
        "stub": ["process-global NumPy RNG (np.random.rand & friends served by the simulator)", "callbacks are benign (fresh arrays): aliasing behaviours belong to C20"],
    }
    ASSUMPTIONS = [
        f"accuracy envelope |err| <= {ODE_ENVELOPE:g} * tol * max(1,|y^(k)|), calibrated on the unchanged tree with >= 10x margin (DESIGN.md section 3, C15)",
        "only increasing maps on the mesh are used (SciPy needs an increasing transformed mesh); boundary derivatives are converted by the chain rule as the docstring prescribes",
        "ODE / boundary-data / transform space is workload: sampled, not decided; the claim is the RNG-draw, RNG-history and repeat clauses",
        "IVP solves run in the same histories with a loose envelope; IVP clauses are not claimed as decided",
    ]

    def submodes(self, tier):
        if tier == "quick":
            return [("direct", 500), ("transform", 900), ("steep", 150)]
        return [("direct", 20000), ("transform", 40000), ("steep", 6000)]

    def determinism_sample(self, tier):
        return 32 if tier == "quick" else 256

    def minimise_budget(self, tier):
        return (200, 90.0)

    def max_reported_classes(self):
        return 4

    def _generate_steep(self, seed, submode):
        """Initial-value problems through strongly stretching maps on intervals that end close to the end of the map's
        domain (transform derivatives of 1e8 ... 1e22).  The eighth-order explicit Runge-Kutta integrator DOP853 (the only one used here; RK45, Radau and LSODA lose 3-6 digits at third order) reproduces the
        solution to 1e-9 there; SciPy's collocation BVP solver does not resolve such problems at any tolerance
        (it reports success and is off by 1e-2 ... 1e2 - a conditioning matter of the solver, not of the change of
        variables), so these runs contain initial-value solves only."""
        rng = random.Random(seed)
        P = None
        for attempt in range(40):
            cand = OP.gen_problem(rng, True)
            if cand.get("amp", 1.0) != 1.0:
                continue
            fam = rng.choice(["handy", "handy", "handy", "becke", "knowles", "handymod", "multiexp", "multiexp", "inv_multiexp"])
            if fam == "handy":
                t = ["handy", rng.choice([0.0, 0.1]), round(rng.uniform(0.8, 1.6), 2), rng.choice([3, 4, 5, 6])]
            elif fam == "becke":
                t = ["becke", rng.choice([0.0, 0.1]), round(rng.uniform(0.8, 1.6), 2)]
            elif fam == "knowles":
                t = ["knowles", rng.choice([0.0, 0.1]), round(rng.uniform(0.8, 1.6), 2), rng.choice([2, 3])]
            elif fam == "handymod":
                t = ["handymod", rng.choice([0.0, 0.1]), round(rng.uniform(5.0, 20.0), 1), rng.choice([3, 4])]
            elif fam == "multiexp":
                t = ["multiexp", rng.choice([0.0, 0.1]), round(rng.uniform(0.8, 1.6), 2)]  # a DEcreasing map of (-1, 1)
            else:
                t = ["inv", ["multiexp", 0.1, round(rng.uniform(0.8, 1.6), 2)]]  # ... and its inverse, decreasing on (rmin, inf)
            cand["tspec"], cand["alts"] = t, []
            # (third order through the steepest maps costs DOP853 three more digits: its interval ends a little earlier)
            cand["a"], cand["b"] = round(rng.uniform(0.1, 0.4), 3), rng.choice([0.9, 0.97, 0.99, 0.995] if cand["order"] < 3 else [0.9, 0.95])
            if fam == "multiexp":
                cand["a"], cand["b"] = round(rng.uniform(-0.7, -0.3), 3), round(rng.uniform(0.2, 0.7), 3)
            elif fam == "inv_multiexp":
                cand["a"], cand["b"] = round(rng.uniform(0.3, 0.6), 3), round(rng.uniform(1.5, 3.0), 3)
            cand["tol"] = 1e-6
            ref = OP.reference_error(cand, cand["tol"])
            if ref is not None and ref <= 0.1 * ODE_ENVELOPE * cand["tol"]:
                P = cand
                break
        if P is None:
            P = {"order": 1, "a": 0.2, "b": 0.97, "terms": [["exp", 1.0, -1.0]], "coeffs": [["const", 1.0], ["const", 1.0]], "bc": [[0, 0]], "tspec": ["handy", 0.0, 1.0, 5], "n": 10, "tol": 1e-6}
        ops = []
        for _ in range(rng.randint(2, 5)):
            if rng.random() < 0.85:
                # (integrating from the far end downwards only through the gentle decreasing maps: started at the steep end, DOP853 loses the digits too)
                ops.append(["ivp", rng.choice(["tf", "tf", "direct"]), "DOP853", 0, rng.random() < 0.3 and "multiexp" in str(P["tspec"]), rng.choice([None, None, "int_list"]), rng.random() < 0.25])
            else:
                ops.append(["perturb", rng.randrange(200), rng.choice([None, 0, 7])])
        if rng.random() < 0.2:
            # (one run in five of this submode also solves a problem posed on a small length scale)
            for _ in range(rng.randint(1, 3)):
                ops.insert(rng.randint(0, len(ops)), ["scaled", rng.choice([1e-3, 1e-6, 1e-9, 1e-9]), rng.choice(["ivp", "bvp"]), rng.randrange(3), rng.randrange(10**6)])
        return {"engine": self.NAME, "seed": seed, "submode": submode, "problem": P, "ops": ops}

    def generate(self, seed, submode):
        if submode == "steep":
            return self._generate_steep(seed, submode)
        rng = random.Random(seed)
        P = None
        for attempt in range(40):
            cand = OP.gen_problem(rng, submode == "transform")
            cand["tol"] = rng.choice([1e-6, 1e-6, 1e-8])
            ref = OP.reference_error(cand, cand["tol"])
            if ref is not None and ref <= 0.1 * ODE_ENVELOPE * cand["tol"]:
                P = cand
                break
        if P is None:
            P = {"order": 1, "a": 0.0, "b": 1.0, "terms": [["exp", 1.0, -1.0]], "coeffs": [["const", 1.0], ["const", 1.0]], "bc": [[0, 0]], "tspec": None, "n": 10, "tol": 1e-6}
        ops = []
        modes = ["direct"] if P["tspec"] is None else ["tf", "tf", "direct"]
        for _ in range(rng.randint(3, 9)):
            u = rng.random()
            if u < 0.58:
                beh = rng.choice(BEHAVIOURS)
                o = {"derivs": rng.random() < 0.8, "share_tf": rng.random() < 0.3, "own_inputs": rng.random() < 0.25, "ti": rng.randrange(3),
                     "reentrant": rng.random() < 0.12}
                if rng.random() < 0.08:
                    o["budget"] = rng.choice([40, 60, 100, 200, 400])
                if rng.random() < 0.08:
                    o["dense"] = rng.choice([100, 333, 600, 1000, 2000])
                    o["default_budget"] = rng.random() < 0.6
                if rng.random() < 0.12:
                    o["guess"] = rng.choice(["zeros", "zeros", "ones", "exact", "big"])  # an explicit initial guess instead of the draw
                ops.append(["bvp", rng.choice(modes), beh, rng.randrange(1000), o])
            elif u < 0.78:
                ops.append(["ivp", rng.choice(modes), rng.choice(["DOP853", "RK45", "Radau", "LSODA", "BDF", "RK23"]), rng.randrange(3), rng.random() < 0.25,
                            rng.choice([None, None, None, "int_list", "int_array"]), rng.random() < 0.25])
            elif u < 0.88:
                ops.append(["perturb", rng.randrange(200), rng.choice([None, 0, 7])])
            else:
                prev = [o for o in ops if o[0] == "bvp"]
                if prev:
                    ops.append(copy.deepcopy(rng.choice(prev)))
        return {"engine": self.NAME, "seed": seed, "submode": submode, "problem": P, "ops": ops}

    def execute(self, spec, known_keys):
        ctx = Ctx(self.PID, spec, known_keys)
        procstate.restore()
        np.seterr(all="ignore")
        state = {"results": {}, "bits": {}, "tf": None}
        with ctx.rng:
            for op in spec["ops"]:
                ctx.step += 1
                try:
                    {"bvp": _op_bvp, "ivp": _op_ivp, "perturb": _op_perturb, "scaled": _op_scaled}[op[0]](ctx, op, state)
                except Exception as exc:  # noqa: BLE001
                    # library code called directly by the harness (transform helpers, held callables) failed
                    if not library_raised(exc):
                        raise
                    ctx.violate("library-raise", op[0], type(exc).__name__, f"library code called during {op[0]} raised {exc!r} outside the solve itself; the run ends here")
                    break
        procstate.restore()
        return {
            "digest": ctx.log.digest(), "violations": ctx.violations, "known_hits": ctx.known_hits, "faults": dict(ctx.faults), "probes": dict(ctx.probes),
            "states": sorted(ctx.states), "nontrivial": bool(ctx.nontrivial), "steps": len(spec["ops"]), "n_ops": len(spec["ops"]),
            "max_ratio": ctx.max_ratio, "max_spread": ctx.max_spread, "ivp_ratio": state.get("ivp_ratio", 0.0),
            "family": f"{spec['problem']['order']}:{_tname(spec['problem']['tspec'])}",
        }

    def extra_coverage(self, results):
        fam = {}
        for r in results:
            f = r.get("family")
            if f:
                fam[f] = max(fam.get(f, 0.0), r.get("max_ratio", 0.0))
        return {
            "max_error_over_tol_seen": max([r.get("max_ratio", 0.0) for r in results] or [0.0]),
            "max_spread_between_draws_over_tol": max([r.get("max_spread", 0.0) for r in results] or [0.0]),
            "max_ivp_error_over_1e-8": max([r.get("ivp_ratio", 0.0) for r in results] or [0.0]),
            "envelope_over_tol": ODE_ENVELOPE,
            "max_error_over_tol_by_order_and_transform": {k: round(v, 3) for k, v in sorted(fam.items())},
        }

    def list_paths(self, spec):
        return [("ops",)]

    def simplify(self, spec):
        P = spec["problem"]
        if len(P["terms"]) > 1:
            for i in range(len(P["terms"])):
                s2 = copy.deepcopy(spec)
                del s2["problem"]["terms"][i]
                yield s2
        if any(c[0] == "scaled" for c in P["coeffs"]):
            s2 = copy.deepcopy(spec)
            s2["problem"]["coeffs"] = [c[2] if c[0] == "scaled" else c for c in P["coeffs"]]
            yield s2
        for i, c in enumerate(P["coeffs"][:-1]):
            if c[0] not in ("const", "scaled"):
                s2 = copy.deepcopy(spec)
                s2["problem"]["coeffs"][i] = ["const", c[1]]
                yield s2
        if P["coeffs"][-1] != ["const", 1.0] and P["coeffs"][-1][0] != "scaled":
            s2 = copy.deepcopy(spec)
            s2["problem"]["coeffs"][-1] = ["const", 1.0]
            yield s2
        for i, op in enumerate(spec["ops"]):
            if op[0] == "bvp" and op[2] != "uniform":
                s2 = copy.deepcopy(spec)
                s2["ops"][i][2] = "uniform"
                yield s2
            if op[0] == "bvp" and op[4].get("share_tf"):
                s2 = copy.deepcopy(spec)
                s2["ops"][i][4]["share_tf"] = False
                yield s2


def make_engine_ode():
    procstate.snapshot()
    return OdeSeamEngine()


def make_engine_poisson():
    from .poisson_seam import PoissonSeamEngine

    procstate.snapshot()
    return PoissonSeamEngine()
