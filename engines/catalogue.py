"""Catalogue of public entry points driven by the caller-env engine (C20).

Every entry is `fn(E, p) -> observables`: it asks the environment `E` for each array / list / dict /
callback it hands to the library (so the simulator owns and snapshots all of them) and returns the
numerical results (arrays, floats, grids) used for the result-equivalence check.  `p` (0..5) selects a
variant.  Entries keep sizes small: grids <= ~400 points, ODE meshes <= 40 nodes.
"""

from __future__ import annotations

import numpy as np

CATALOGUE = {}
WEIGHTS = {}


def entry(name, weight=1.0):
    def deco(fn):
        CATALOGUE[name] = fn
        WEIGHTS[name] = weight
        return fn

    return deco


def _rs(seed):
    return np.random.RandomState(seed)


def _pts3(n, seed, spread=1.5):
    return _rs(seed).uniform(-spread, spread, size=(n, 3))


def _wts(n, seed):
    return _rs(seed).uniform(0.1, 1.0, size=n)


def _rgrid(n=6, R=1.0):
    from grid.onedgrid import GaussLegendre
    from grid.rtransform import BeckeRTransform

    return BeckeRTransform(0.0, R).transform_1d_grid(GaussLegendre(n))


def _gauss(points, center=(0, 0, 0), a=0.8):
    d = np.asarray(points) - np.asarray(center)
    return (a / np.pi) ** 1.5 * np.exp(-a * np.sum(d * d, axis=1))


# ---- basic grids ----------------------------------------------------------------------------------


@entry("grid_integrate")
def _(E, p):
    from grid.basegrid import Grid

    n = 20 + 5 * (p % 6)
    g = Grid(E.arr("points", _pts3(n, 1)), E.arr("weights", _wts(n, 2)))
    f1 = E.arr("f1", _rs(3).rand(n))
    f2 = E.alias("f2", "f1", _rs(4).rand(n))
    out = [g.integrate(f1), g.integrate(f1, f2)]
    # (any number of integrands may be handed over)
    f3 = E.arr("f3", _rs(5).rand(n) - 0.5)
    f4 = E.arr("f4", _rs(6).rand(n) + 1.0)
    k = p % 4
    if k == 1:
        out.append(g.integrate(f1, f2, f3))
    elif k == 2:
        out.append(g.integrate(f1, f2, f3, f4))
    elif k == 3:
        out.append(g.integrate(f3, f3, f3))
    return out + [g.points, g.weights]


@entry("grid_moments", 1.5)
def _(E, p):
    from grid.basegrid import Grid

    n = 30
    g = Grid(E.arr("points", _pts3(n, 5)), E.arr("weights", _wts(n, 6)))
    centers = E.arr("centers", _pts3(2, 7, 0.5))
    f = E.arr("func_vals", _rs(8).rand(n))
    kind = ["cartesian", "radial", "pure", "pure-radial", "cartesian", "pure"][p % 6]
    m, orders = g.moments(2, centers, f, kind, return_orders=True)
    return [m, np.asarray(orders, dtype=float)]


@entry("grid_moments_centers_alias")
def _(E, p):
    from grid.basegrid import Grid

    n = 12
    pts = E.arr("points", _pts3(n, 9))
    g = Grid(pts, E.arr("weights", _wts(n, 10)))
    centers = E.alias("centers", "points", _pts3(n, 9))
    return [g.moments(1, centers, E.arr("func_vals", _rs(11).rand(n)), "cartesian")]


@entry("grid_localgrid_select", 1.5)
def _(E, p):
    from grid.basegrid import Grid

    n = 40
    dim = [1, 2, 3, 3, 2, 3][p % 6]
    pts = _pts3(n, 12)[:, :dim] if dim > 1 else _pts3(n, 12)[:, 0]
    g = Grid(E.arr("points", pts), E.arr("weights", _wts(n, 13)))
    c = E.arr("center", np.zeros(dim) if dim > 1 else np.array(0.1))
    lg = g.get_localgrid(c, 1.2)
    lg2 = g.get_localgrid(c, np.inf)
    idx = E.arr("index", np.array([1, 3, 5]), dtype=int)
    mask = E.arr("mask", _rs(14).rand(n) < 0.5, dtype=bool)
    s = g[idx]
    s2 = g[mask]
    return [lg, lg2, lg.indices, s, s2]


@entry("onedgrid")
def _(E, p):
    from grid.basegrid import OneDGrid

    n = 15
    pts = np.sort(_rs(15).uniform(-1, 1, n))
    g = OneDGrid(E.arr("points", pts), E.arr("weights", _wts(n, 16)), E.tup("domain", (-1.0, 1.0)))
    f = E.arr("f", _rs(17).rand(n))
    return [g.integrate(f), g[2:9], g[E.arr("index", np.array([0, 4]), dtype=int)], g.get_localgrid(E.arr("center", np.array(0.0)), 0.5)]


@entry("transforms", 3.0)
def _(E, p):
    from grid.onedgrid import GaussChebyshev, GaussLaguerre, UniformInteger
    from grid import rtransform as rt

    from grid.basegrid import OneDGrid

    x = E.arr("x", np.linspace(-0.9, 0.9, 11))
    xp = E.arr("xpos", np.linspace(0.0, 9.0, 10))
    out = []
    sel = p % 3
    # caller-built 1-D grids (their arrays are the caller's) handed to transform_1d_grid
    og_fin = OneDGrid(E.arr("og_points", np.linspace(-0.95, 0.95, 9)), E.arr("og_weights", np.full(9, 0.2)), (-1.0, 1.0))
    og_inf = OneDGrid(E.arr("og2_points", np.arange(8, dtype=float)), E.arr("og2_weights", np.ones(8)), (0.0, np.inf))
    if sel == 0:
        tfs = [rt.BeckeRTransform(0.1, 1.2), rt.LinearFiniteRTransform(0.2, 5.0), rt.MultiExpRTransform(0.1, 1.1), rt.KnowlesRTransform(0.1, 1.3, 2), rt.HandyRTransform(0.1, 1.3, 2), rt.HandyModRTransform(0.1, 10.0, 2)]
        for tf in tfs:
            r = tf.transform(x)
            out += [r, tf.deriv(x), tf.deriv2(x), tf.deriv3(x), tf.inverse(E.arr("r_" + type(tf).__name__, r))]
            out.append(tf.transform_1d_grid(GaussChebyshev(7)))
            out.append(tf.transform_1d_grid(og_fin))
    elif sel == 1:
        tfs = [rt.LinearInfiniteRTransform(0.1, 10.0), rt.ExpRTransform(0.1, 10.0), rt.PowerRTransform(0.01, 10.0), rt.HyperbolicRTransform(0.5, 0.02), rt.IdentityRTransform()]
        for tf in tfs:
            r = tf.transform(xp)
            out += [r, tf.deriv(xp), tf.deriv2(xp), tf.deriv3(xp), tf.inverse(E.arr("r_" + type(tf).__name__, r))]
            out.append(tf.transform_1d_grid(UniformInteger(8)))
            if type(tf).__name__ != "HyperbolicRTransform":
                out.append(type(tf)(*([0.1, 10.0] if type(tf).__name__ != "IdentityRTransform" else [])).transform_1d_grid(og_inf))
    else:
        tf = rt.InverseRTransform(rt.BeckeRTransform(0.1, 1.2))
        r = E.arr("rr", np.linspace(0.3, 4.0, 9))
        out += [tf.transform(r), tf.deriv(r), tf.deriv2(r), tf.deriv3(r)]
        tf2 = rt.BeckeRTransform(0.1, 1.2)
        out += [tf2.deriv_inverse(r), tf2.deriv2_inverse(r), tf2.deriv3_inverse(r)]
        out.append(rt.BeckeRTransform(0.0, 1.0).transform_1d_grid(GaussLaguerre(6) if False else GaussChebyshev(6)))
    return out


# ---- atomic grids ---------------------------------------------------------------------------------


@entry("atomgrid_ctor", 2.0)
def _(E, p):
    from grid.atomgrid import AtomGrid

    rg = _rgrid(5)
    c = E.arr("center", np.array([0.3, -0.2, 0.5]))
    v = p % 6
    # lists and ndarrays, one entry or one per shell, supported values and values that resolve upward
    if v == 0:
        g = AtomGrid(rg, degrees=E.lst("degrees", [3, 5, 5, 7, 3]), center=c, rotate=p % 7)
    elif v == 1:
        g = AtomGrid(rg, degrees=E.arr("degrees_arr", np.array([5]), dtype=int), center=c)
    elif v == 2:
        g = AtomGrid(rg, degrees=None, sizes=E.lst("sizes", [6, 14, 14, 26, 6]), center=c)
    elif v == 3:
        g = AtomGrid(rg, degrees=E.arr("degrees_arr", np.array([3, 4, 6, 8, 10]), dtype=int), center=c, rotate=p % 7)
    elif v == 4:
        g = AtomGrid(rg, degrees=None, sizes=E.arr("sizes_arr", np.array([5, 13, 15, 27, 7]), dtype=int), center=c)
    else:
        g = AtomGrid(rg, degrees=E.lst("degrees", [2, 4, 6, 8, 4]), center=c, method=["lebedev", "spherical", "maxdet", "ahrens_beylkin"][(p // 6) % 4])
    return [g, np.asarray(g.indices, dtype=float), np.asarray(g.degrees, dtype=float), g.get_shell_grid(1), g.get_shell_grid(2, r_sq=False)]


@entry("atomgrid_pruned_preset", 1.5)
def _(E, p):
    from grid.atomgrid import AtomGrid

    rg = _rgrid(8)
    c = E.arr("center", np.array([0.0, 0.1, -0.4]))
    if p % 2 == 0:
        d_sec = E.lst("d_sectors", [3, 5, 7, 5]) if p % 3 else E.arr("d_sectors_arr", np.array([2, 4, 8, 6]), dtype=int)
        g = AtomGrid.from_pruned(rg, 1.0, E.lst("r_sectors", [0.5, 1.0, 1.5] if p % 4 == 0 else [1.0, 0.5, 1.5]), d_sec, center=c, rotate=p % 7)
    else:
        g = AtomGrid.from_pruned(rg, 1.0, E.arr("r_sectors_arr", np.array([0.5, 1.5])), None, s_sectors=E.arr("s_sectors", np.array([6, 14, 6]), dtype=int), center=c)
    g2 = AtomGrid.from_preset(1 if p % 6 < 3 else 6, ["coarse", "medium", "fine"][p % 3], rgrid=_rgrid(10), center=c)
    return [g, g2]


@entry("atomgrid_analysis", 3.0)
def _(E, p):
    from grid.atomgrid import AtomGrid

    rg = _rgrid(6)
    g = AtomGrid(rg, degrees=[7], center=np.array([0.1, 0.0, -0.1]), rotate=p % 7)
    f = E.arr("func_vals", _gauss(g.points, g.center, 0.7) * (1 + 0.2 * g.points[:, 2]))
    f2d = E.arr("func_vals_2d", np.vstack([_gauss(g.points, g.center, 0.7), _gauss(g.points, g.center, 1.1)]))
    pts = E.arr("points", _pts3(9, 21, 1.0))
    out = [g.integrate(f), g.integrate_angular_coordinates(f), g.integrate_angular_coordinates(f2d), g.spherical_average(f)(E.arr("radii", np.array([0.2, 0.7, 1.5])))]
    out += [np.array([s(0.6) for s in g.radial_component_splines(f)])]
    interp = g.interpolate(f)
    out += [interp(pts), interp(pts, deriv=1), interp(pts, deriv=1, deriv_spherical=True), interp(pts, deriv=2, only_radial_deriv=True)]
    out += [interp(pts, deriv=1, only_radial_deriv=True), interp(pts, deriv=3, only_radial_deriv=True)] if p % 2 else [interp(pts, deriv=1, deriv_spherical=True, only_radial_deriv=True)]
    out += [g.convert_cartesian_to_spherical(pts, E.arr("sph_center", np.array([0.0, 0.2, 0.0]))), g.convert_cartesian_to_spherical()]
    out += [g.get_localgrid(E.arr("lc", np.array([0.1, 0.0, 0.0])), 0.8)]
    return out


# ---- molecular grids -------------------------------------------------------------------------------


def _two_atoms(E):
    atnums = E.arr("atnums", np.array([8, 1]), dtype=int)
    # (coordinates as they come out of a unit conversion: all sixteen digits are significant)
    atcoords = E.arr("atcoords", np.array([[0.0, 0.0, 0.0], [0.0, 0.0, 0.9584 * 1.8897261246257702]]))
    return atnums, atcoords


@entry("molgrid_ctor", 2.0)
def _(E, p):
    from grid.atomgrid import AtomGrid
    from grid.becke import BeckeWeights
    from grid.molgrid import MolGrid

    atnums, atcoords = _two_atoms(E)
    ags = E.lst("atgrids", [AtomGrid(_rgrid(4), degrees=[5], center=atcoords[i].copy()) for i in range(2)])
    if p % 2 == 0:
        mg = MolGrid(atnums, ags, BeckeWeights(order=3), store=bool(p % 4))
    else:
        n = sum(a.size for a in ags)
        mg = MolGrid(atnums, ags, E.arr("aim_weights", _rs(30).uniform(0.2, 0.8, n)), store=True)
    f = E.arr("f", _gauss(mg.points, (0, 0, 0.5), 0.6))
    return [mg, mg.integrate(f), mg.get_atomic_grid(0), mg[1], np.asarray(mg.indices, dtype=float), mg.aim_weights, mg.atweights, mg.atcoords]


@entry("molgrid_callable_weights", 2.0)
def _(E, p):
    from grid.atomgrid import AtomGrid
    from grid.becke import BeckeWeights
    from grid.molgrid import MolGrid

    atnums, atcoords = _two_atoms(E)
    ags = [AtomGrid(_rgrid(4), degrees=[5], center=atcoords[i].copy()) for i in range(2)]
    bw = BeckeWeights(order=3)
    cb = E.cb("aim_weights", lambda pts, coords, nums, idx: bw(pts, coords, nums, idx))
    mg = MolGrid(atnums, ags, cb, store=True)
    return [mg, mg.aim_weights]


@entry("molgrid_from", 2.0)
def _(E, p):
    from grid.becke import BeckeWeights
    from grid.molgrid import MolGrid

    atnums, atcoords = _two_atoms(E)
    rg = _rgrid(5)
    if p % 3 == 0:
        mg = MolGrid.from_size(atnums, atcoords, 14, rgrid=rg, aim_weights=BeckeWeights(), store=True)
    elif p % 3 == 1:
        mg = MolGrid.from_pruned(
            atnums, atcoords, E.lst("radius", [1.0, 0.6]), E.lst("r_sectors", [[0.5, 1.0], [0.7]]), E.lst("d_sectors", [[3, 5, 3], [5, 3]]),
            rgrid=E.lst("rgrid_list", [rg, _rgrid(4)]), aim_weights=BeckeWeights(), store=True,
        )
    else:
        # (a None entry means "the default radial grid of that element")
        kr, kp = (p // 3) % 4, (p // 12) % 3
        rgs = E.dct("rgrid_dict", {8: rg, 1: _rgrid(4)}) if kr == 0 else E.dct("rgrid_dict_none", {8: rg, 1: None}) if kr == 1 else E.lst("rgrid_list", [None, _rgrid(4)]) if kr == 2 else rg
        pre = E.dct("preset", {8: "coarse", 1: "coarse"}) if kp == 0 else "coarse" if kp == 1 else E.lst("preset_list", ["coarse", "medium"])
        mg = MolGrid.from_preset(atnums, atcoords, pre, rgrid=rgs, store=False)
    return [mg, np.asarray(mg.indices, dtype=float)]


@entry("molgrid_interpolate", 1.0)
def _(E, p):
    from grid.becke import BeckeWeights
    from grid.molgrid import MolGrid

    atnums, atcoords = _two_atoms(E)
    mg = MolGrid.from_size(atnums, atcoords, 26, rgrid=_rgrid(6), aim_weights=BeckeWeights(), store=True)
    f = E.arr("func_vals", _gauss(mg.points, (0, 0, 0), 0.9) + _gauss(mg.points, (0, 0, 1.8), 0.7))
    pts = E.arr("points", _pts3(6, 31, 1.0) + np.array([0, 0, 0.9]))
    it = mg.interpolate(f)
    return [it(pts), it(pts, deriv=1), it(pts, deriv=1, deriv_spherical=True), it(pts, deriv=2, only_radial_derivs=True)]


@entry("becke", 3.0)
def _(E, p):
    from grid.becke import BeckeWeights

    # (every third variant contains atoms without a tabulated Bragg-Slater radius: He, Ne, Ar -> fallback branch)
    zs = [8, 1, 1, 6, 7] if p % 3 else [8, 10, 1, 2, 18]
    atnums = E.arr("atnums", np.array(zs[: 2 + p % 4]), dtype=int)
    m = len(atnums)
    atcoords = E.arr("atcoords", _pts3(m, 40, 2.0))
    n = 24
    pts = E.arr("points", _pts3(n, 41, 2.5))
    idx = np.linspace(0, n, m + 1).astype(int)
    indices = E.arr("indices", idx, dtype=int)
    bw = BeckeWeights(radii=E.dct("radii", {1: 0.6, 8: 1.2}), order=3) if p % 2 else BeckeWeights()
    out = [bw(pts, atcoords, atnums, indices)]
    out.append(bw.generate_weights(pts, atcoords, atnums, select=E.lst("select", list(range(m))), pt_ind=E.lst("pt_ind", [int(i) for i in idx])))
    out.append(bw.compute_weights(pts, atcoords, atnums, select=E.lst("select2", [0]), pt_ind=None))
    out.append(bw.compute_atom_weight(pts, atcoords, atnums, 1))
    return out


@entry("becke_points_alias")
def _(E, p):
    from grid.becke import BeckeWeights

    atnums = E.arr("atnums", np.array([8, 1, 1]), dtype=int)
    atcoords = E.arr("atcoords", _pts3(3, 42, 2.0))
    pts = E.alias("points", "atcoords", _pts3(3, 42, 2.0))  # weights evaluated at the nuclei themselves
    return [BeckeWeights().generate_weights(pts, atcoords, atnums, select=0)]


@entry("hirshfeld", 1.0)
def _(E, p):
    from grid.hirshfeld import HirshfeldWeights

    atnums = E.arr("atnums", np.array([8, 1]), dtype=int)
    atcoords = E.arr("atcoords", np.array([[0.0, 0.0, 0.0], [0.0, 0.0, 1.8]]))
    pts = E.arr("points", _pts3(20, 43, 2.0))
    indices = E.arr("indices", np.array([0, 10, 20]), dtype=int)
    hw = HirshfeldWeights()
    return [hw(pts, atcoords, atnums, indices), hw.generate_proatom(pts, E.arr("coord", np.array([0.0, 0.0, 0.2])), 8)]


# ---- rectilinear, periodic, multi-domain ------------------------------------------------------------


@entry("uniformgrid", 2.0)
def _(E, p):
    from grid.cubic import UniformGrid

    origin = E.arr("origin", np.array([-1.0, -1.0, -1.0]))
    axes = E.arr("axes", np.eye(3) * 0.4 + (0.05 if p % 2 else 0.0) * np.array([[0, 1, 0], [0, 0, 0], [0, 0, 0]]))
    shape = E.arr("shape", np.array([6, 6, 6]), dtype=int)
    g = UniformGrid(origin, axes, shape, weight=["Trapezoid", "Rectangle", "Fourier1", "Fourier2", "Alternative", "Trapezoid"][p % 6])
    vals = E.arr("values", np.exp(-np.sum(g.points**2, axis=1)))
    pts = E.arr("points", _pts3(3, 50, 0.3))
    out = [g, g.closest_point(E.arr("point", np.array([0.1, -0.2, 0.3]))) if p % 2 == 0 else 0.0, g.coordinates_to_index(E.tup("coords", (1, 2, 3))), np.asarray(g.index_to_coordinates(17), dtype=float)]
    if p % 2 == 0:
        out += [g.interpolate(pts, vals, method="linear"), g.interpolate(pts, vals, method="cubic"), g.interpolate(pts, vals, use_log=True, nu_x=1)]
        out += [g.interpolate(pts, vals, method="nearest"), g.interpolate(pts, vals, nu_y=1), g.interpolate(pts, vals, nu_z=2), g.interpolate(pts, vals, use_log=True, nu_z=1),
                g.closest_point(E.arr("point", np.array([0.1, -0.2, 0.3])), which="origin")]
    g2 = UniformGrid.from_molecule(E.arr("atcorenums", np.array([8.0, 1.0])), E.arr("atcoords", np.array([[0.0, 0.0, 0.22166487441860283], [0.0, 1.4309006215666331, -0.8866594976744113]])), spacing=1.0, extension=1.0, rotate=bool(p % 2))
    return out + [g2]


@entry("uniformgrid_2d")
def _(E, p):
    from grid.cubic import UniformGrid

    g = UniformGrid(E.arr("origin", np.array([0.0, 0.0])), E.arr("axes", np.array([[0.5, 0.0], [0.1, 0.5]])), E.arr("shape", np.array([4, 5]), dtype=int), weight="Rectangle")
    return [g, g.get_localgrid(E.arr("center", np.array([0.5, 0.5])), 0.8)]


@entry("tensor1d", 1.0)
def _(E, p):
    from grid.basegrid import OneDGrid
    from grid.cubic import Tensor1DGrids

    def og(tag, n, s):
        return OneDGrid(E.arr("p" + tag, np.linspace(-1, 1, n)), E.arr("w" + tag, _wts(n, s)), (-1, 1))

    g = Tensor1DGrids(og("x", 6, 60), og("y", 6, 61), og("z", 6, 62)) if p % 2 == 0 else Tensor1DGrids(og("x", 4, 60), og("y", 5, 61))
    out = [g]
    if p % 2 == 0:
        vals = E.arr("values", np.exp(-np.sum(g.points**2, axis=1)))
        out.append(g.interpolate(E.arr("points", _pts3(3, 63, 0.3)), vals, method="linear"))
    return out


@entry("periodic", 2.0)
def _(E, p):
    from grid.periodicgrid import PeriodicGrid

    n = 30
    dim = [3, 2, 1, 3, 2, 3][p % 6]
    pts = _pts3(n, 70, 3.0)[:, :dim] if dim > 1 else _pts3(n, 70, 3.0)[:, 0]
    rv = np.eye(dim) * 2.0 + 0.1 if dim > 1 else np.array([2.0])
    if dim > 1:
        rv = rv[: max(1, dim - (p % 2))]
    g = PeriodicGrid(E.arr("points", pts), E.arr("weights", _wts(n, 71)), E.arr("realvecs", rv), wrap=bool(p % 2 == 0))
    c = E.arr("center", np.full(dim, 0.3) if dim > 1 else np.array(0.3))
    lg = g.get_localgrid(c, 1.1)
    s = g[E.arr("index", np.array([0, 2, 4]), dtype=int)]
    return [g, lg, np.asarray(lg.indices, dtype=float), s]


@entry("multidomain", 2.0)
def _(E, p):
    from grid.basegrid import Grid
    from grid.ngrid import MultiDomainGrid

    g1 = Grid(E.arr("p1", _pts3(5, 80)), E.arr("w1", _wts(5, 81)))
    g2 = Grid(E.arr("p2", _pts3(4, 82)), E.arr("w2", _wts(4, 83)))
    if p % 3 == 0:
        md = MultiDomainGrid(E.lst("grid_list", [g1, g2]))
        f = E.cb("integrand", lambda x, y: np.exp(-np.sum(np.asarray(x) ** 2, axis=-1)) * np.exp(-np.sum(np.asarray(y) ** 2, axis=-1)))
        return [md.integrate(f), md.integrate(f, non_vectorized=True, integration_chunk_size=3), np.asarray(md.size, dtype=float)]
    if p % 3 == 1:
        md = MultiDomainGrid(E.lst("grid_list", [g1]), num_domains=2)
        f = E.cb("integrand", lambda x, y: np.exp(-np.sum((np.asarray(x) - np.asarray(y)) ** 2, axis=-1)))
        return [md.integrate(f, integration_chunk_size=7), md.weights, md.points if False else np.asarray(md.size, dtype=float)]
    md = MultiDomainGrid(E.lst("grid_list", [g1]), num_domains=1)
    f = E.cb("integrand", lambda x: np.sum(np.asarray(x), axis=-1), identity=False)
    return [md.integrate(f)]


# ---- ODE solvers --------------------------------------------------------------------------------------


@entry("ode_bvp_identity_rhs", 4.0)
def _(E, p):
    """y'' - y = x on [0, 1], y(0)=0, y(1)=1: the right-hand side is f(x) = x, so a callback may legally return its argument."""
    from grid.ode import solve_ode_bvp

    x = E.arr("x", np.linspace(0.0, 1.0, 12))
    fx = E.cb("fx", lambda t: np.array(t, dtype=float), identity=True)
    coeffs = E.lst("coeffs", [-1.0, 0.0, 1.0]) if p % 2 == 0 else E.arr("coeffs_arr", np.array([-1.0, 0.0, 1.0]))
    bd = E.lst("bd_cond", [[0, 0, 0.0], [1, 0, 1.0]] if p % 6 < 4 else [[1, 0, 1.0], [0, 0, 0.0]])
    guess = E.arr("initial_guess_y", np.zeros((2, 12))) if p % 3 == 0 else None
    sol = solve_ode_bvp(x, fx, coeffs, bd, tol=1e-6, initial_guess_y=guess)
    return [sol(E.arr("eval", np.linspace(0.05, 0.95, 7)))]


@entry("ode_bvp_callable_coeffs", 4.0)
def _(E, p):
    """y'' + a1(x) y' + a0(x) y = f(x) with callable coefficients; a0(x) = x is an identity callback."""
    from grid.ode import solve_ode_bvp

    x = E.arr("x", np.linspace(0.1, 1.5, 14))
    a0 = E.cb("a0", lambda t: np.array(t, dtype=float), identity=True)
    a1 = E.cb("a1", lambda t: 0.5 + 0.0 * np.asarray(t, dtype=float))
    fx = E.cb("fx", lambda t: np.cos(np.asarray(t, dtype=float)))
    coeffs = E.lst("coeffs", [a0, a1, 1.0])
    bd = E.lst("bd_cond", [[0, 0, 0.2], [1, 1, -0.1]] if p % 2 else [[0, 0, 0.2], [1, 0, 0.4]])
    sol = solve_ode_bvp(x, fx, coeffs, bd, tol=1e-6)
    return [sol(E.arr("eval", np.linspace(0.2, 1.4, 6)))]


@entry("ode_bvp_transform", 3.0)
def _(E, p):
    from grid.ode import solve_ode_bvp
    from grid.rtransform import BeckeRTransform, InverseRTransform, LinearFiniteRTransform

    tf = [InverseRTransform(BeckeRTransform(0.0, 1.0)), LinearFiniteRTransform(0.0, 2.0)][p % 2]
    x = E.arr("x", np.linspace(0.05, 2.0, 16) if p % 2 == 0 else np.linspace(-0.9, 0.9, 16))
    fx = E.cb("fx", lambda t: -np.sin(np.asarray(t, dtype=float)))
    coeffs = E.lst("coeffs", [1.0, 0.0, 2.0])
    bd = E.lst("bd_cond", [(0, 0, 0.0), (1, 0, 0.3)])
    sol = solve_ode_bvp(x, fx, coeffs, bd, transform=tf, tol=1e-6, no_derivatives=bool(p % 4 < 2))
    ev = E.arr("eval", np.linspace(0.2, 1.8, 5) if p % 2 == 0 else np.linspace(-0.7, 0.7, 5))
    return [sol(ev)]


@entry("ode_ivp", 4.0)
def _(E, p):
    from grid.ode import solve_ode_ivp
    from grid.rtransform import LinearFiniteRTransform

    order3 = p % 3 == 2
    fx = E.cb("fx", lambda t: np.array(t, dtype=float), identity=True)
    a0 = E.cb("a0", lambda t: 1.0 + 0.0 * np.asarray(t, dtype=float))
    coeffs = E.lst("coeffs", [a0, 0.5, 1.0, 1.0] if order3 else [a0, 0.5, 1.0])
    y0 = E.lst("y0", [0.0, 1.0, 0.0] if order3 else [0.0, 1.0]) if p % 2 else E.arr("y0_arr", np.array([0.0, 1.0, 0.0] if order3 else [0.0, 1.0]))
    span = E.tup("x_span", (0.0, 1.0))
    tf = LinearFiniteRTransform(0.0, 3.0) if p % 6 >= 3 else None
    if tf is not None:
        span = E.tup("x_span", (-0.9, 0.5))
    sol = solve_ode_ivp(span, fx, coeffs, y0, transform=tf, method=["DOP853", "RK45", "Radau"][p % 3], no_derivatives=False)
    ev = E.arr("eval", np.linspace(0.1, 0.9, 5) if tf is None else np.linspace(-0.8, 0.4, 5))
    return [sol(ev)]


# ---- Poisson ---------------------------------------------------------------------------------------------


def _poisson_setup(E, n_rad=12, deg=5, center=(0.0, 0.0, 0.0)):
    from grid.atomgrid import AtomGrid
    from grid.onedgrid import GaussLegendre
    from grid.rtransform import BeckeRTransform

    tf = BeckeRTransform(1e-4, 1.5)
    rg = tf.transform_1d_grid(GaussLegendre(n_rad))
    g = AtomGrid(rg, degrees=[deg], center=np.array(center, dtype=float))
    return g, tf


@entry("poisson_bvp", 0.6)
def _(E, p):
    from grid.poisson import solve_poisson_bvp
    from grid.rtransform import BeckeRTransform, InverseRTransform

    g, tf = _poisson_setup(E, 12, 4)
    rho = E.arr("func_vals", _gauss(g.points, g.center, 1.2))
    params = E.dct("ode_params", {"tol": 1e-4} if p % 2 else {})
    pot = solve_poisson_bvp(g, rho, InverseRTransform(tf), include_origin=bool(p % 3), ode_params=params if p % 4 else None,
                            boundary=[None, 0.0, 3.5, None, -1.0][p % 5], remove_large_pts=[1e6, 50.0, None][p % 3])
    pts = E.arr("points", _pts3(5, 90, 0.8))
    return [pot(pts)]


@entry("poisson_ivp_and_shared_params", 0.5)
def _(E, p):
    """The same option dictionary is passed to the BVP and then to the IVP solver (caller-owned, reusable)."""
    from grid.poisson import solve_poisson_bvp, solve_poisson_ivp
    from grid.rtransform import BeckeRTransform, InverseRTransform

    g, tf = _poisson_setup(E, 10, 3)
    rho = E.arr("func_vals", _gauss(g.points, g.center, 1.0))
    params = E.dct("ode_params", {})
    pts = E.arr("points", _pts3(4, 91, 0.8) + 0.3)
    out = []
    if p % 2 == 0:
        out.append(solve_poisson_bvp(g, rho, InverseRTransform(tf), ode_params=params)(pts))
    out.append(solve_poisson_ivp(g, rho, InverseRTransform(tf), r_interval=E.tup("r_interval", (50.0, 1e-3)), ode_params=params)(pts))
    return out


@entry("interpolate_laplacian", 1.0)
def _(E, p):
    from grid.poisson import interpolate_laplacian

    g, tf = _poisson_setup(E, 10, 5)
    f = E.arr("func_vals", _gauss(g.points, g.center, 0.9))
    lap = interpolate_laplacian(g, f)
    return [lap(E.arr("points", _pts3(5, 92, 0.7) + 0.2))]


@entry("robust_poisson", 0.5)
def _(E, p):
    from grid.robust_poisson import solve_poisson_robust
    from grid.rtransform import InverseRTransform

    g, tf = _poisson_setup(E, 12, 3)
    atnums = E.arr("atnums", np.array([1 if p % 2 else 6]), dtype=int)
    atcoords = E.arr("atcoords", np.array([[0.0, 0.0, 0.0]]))
    rho = E.arr("density_vals", 0.5 * _gauss(g.points, g.center, 0.8))
    alphas = E.arr("alphas_basis", np.geomspace(0.1, 50.0, 6)) if p % 3 == 0 else None
    pot = solve_poisson_robust(g, rho, InverseRTransform(tf), atnums, atcoords, split2=p % 3 == 0, alphas_basis=alphas, ode_params=E.dct("ode_params", {"tol": 1e-4}))
    return [pot(E.arr("points", _pts3(4, 93, 0.9) + 0.4))]


# ---- coulomb, utils -----------------------------------------------------------------------------------------


@entry("coulomb", 2.0)
def _(E, p):
    from grid.coulomb import coulomb_gaussian_p, coulomb_gaussian_s, coulomb_potential, load_atomic_gaussian_params

    r = E.arr("r", np.array([0.0, 1e-9, 1e-3, 0.5, 2.0, 50.0]))
    out = [coulomb_gaussian_s(r, 1.3), coulomb_gaussian_p(r, 0.7), coulomb_gaussian_s(r, 1.3, normalized=False)]
    pts = E.arr("points", _pts3(7, 100, 1.5))
    cs, als, cens = E.arr("coeffs_s", np.array([1.0, 0.5])), E.arr("alphas_s", np.array([0.8, 2.0])), E.arr("centers_s", _pts3(2, 101, 0.5))
    norm = bool((p // 2) % 2)
    if p % 2:
        out.append(coulomb_potential(pts, cens, cs, als, centers_p=E.arr("centers_p", _pts3(1, 102, 0.5)), coeffs_p=E.arr("coeffs_p", np.array([0.3])),
                                     alphas_p=E.arr("alphas_p", np.array([1.1])), normalized=norm))
    else:
        out.append(coulomb_potential(pts, cens, cs, als, normalized=norm))
    out.append(coulomb_gaussian_p(r, 0.7, normalized=norm))
    c, a = load_atomic_gaussian_params(["H", 6, "N", 8, "Cl", "c"][p % 6])
    return out + [c, a]


@entry("utils_harmonics", 2.0)
def _(E, p):
    from grid import utils as u

    theta = E.arr("theta", np.linspace(0.0, 6.0, 9))
    phi = E.alias("phi", "theta", np.linspace(0.1, 3.0, 9))
    out = [u.generate_real_spherical_harmonics(3, theta, phi), u.generate_real_spherical_harmonics_scipy(3, theta, phi), u.generate_derivative_real_spherical_harmonics(2, theta, phi)]
    pts = E.arr("points", _pts3(8, 110, 1.0))
    sph = u.convert_cart_to_sph(pts, E.arr("center", np.array([0.1, 0.2, 0.3])))
    out += [sph, u.solid_harmonics(2, E.arr("sph_pts", np.array(sph))), u.get_cov_radii(E.arr("atnums", np.array([1, 6, 8]), dtype=int), ["bragg", "cambridge", "alvarez"][p % 3])]
    out.append(np.asarray(u.generate_orders_horton_order(2, ["cartesian", "radial", "pure", "pure-radial", "cartesian", "pure"][p % 6], 3), dtype=float))
    out.append(u.convert_derivative_from_spherical_to_cartesian(0.3, 0.2, 0.1, 1.2, 0.4, 0.9))
    return out


@entry("transform_params", 1.0)
def _(E, p):
    """Helpers that derive a transform parameter from the caller's array, and transforms that remember a scale from it."""
    from grid import rtransform as rt

    x = np.sort(_rs(140).uniform(-1, 1, 9 + p % 2))
    x = E.arr("x", (x, x[::-1].copy(), _rs(141).permutation(x))[(p // 2) % 3])  # ascending / descending / any order
    out = [rt.BeckeRTransform.find_parameter(x, 0.1, 1.2 + 0.1 * (p % 3))]
    n = E.arr("n", np.arange(0.0, 12.0))
    for cls in (rt.LinearInfiniteRTransform, rt.ExpRTransform, rt.PowerRTransform):
        tf = cls(0.01, 20.0)
        if p % 2:
            tf.set_maximum_parameter_b(n)
            out.append(tf.b)
        r = tf.transform(n)
        out += [r, tf.deriv(n), tf.inverse(E.arr("r_" + cls.__name__, r)), tf.b, tf.domain, tf.codomain]
    inv = rt.InverseRTransform(rt.BeckeRTransform(0.1, 1.5))
    rr = E.arr("rr", np.linspace(0.2, 9.0, 8))
    out += [inv.transform(rr), inv.deriv(rr), inv.deriv2(rr), inv.deriv3(rr), inv.inverse(E.arr("xx", np.linspace(-0.8, 0.8, 5)))]
    return out


@entry("edge_inputs", 3.0)
def _(E, p):
    """Caller data that sits on the edge of what the library accepts or special-cases: points a rounding error outside
    the stated domain (accepted within 1e-7), radial nodes below the 1e-8 'this is the nucleus' threshold, angles exactly
    on the poles, points exactly on the expansion centre, end points of a strip/finite rule.  Input that is accepted
    'with tolerance' is still the caller's and must not be tidied up in place."""
    from grid import utils as u
    from grid.atomgrid import AtomGrid
    from grid.basegrid import Grid, OneDGrid

    v = p % 8
    out = []
    if v in (0, 1, 2):
        # 0.1*arange(4)[-1] = 0.30000000000000004 > 0.3 ; the same array also backs an earlier, domain-less grid
        if v == 0:
            pts, dom = 0.1 * np.arange(4), (0.0, 0.3)
        elif v == 1:
            pts, dom = np.array([-1.0000000000000002, -0.5, 0.0, 0.5, 1.0]), (-1.0, 1.0)
        else:
            pts, dom = np.array([-1.0 - 5e-8, -0.3, 0.4, 1.0 + 9e-8]), (-1, 1)
        P = E.arr("points", pts)
        W = E.arr("weights", np.full(len(pts), 0.25))
        earlier = Grid(P, W)
        g = OneDGrid(P, W, E.tup("domain", dom))
        out += [g, earlier, g.integrate(E.arr("f", np.cos(pts))), g[1:3]]
    elif v == 3:
        # a radial node below the 1e-8 threshold, and one exactly 0
        rg = OneDGrid(E.arr("rpoints", np.array([0.0, 5e-9, 0.3, 0.9, 1.7])), E.arr("rweights", np.array([0.05, 0.1, 0.3, 0.5, 0.6])), (0, np.inf))
        ag = AtomGrid(rg, degrees=E.lst("degrees", [3, 3, 5, 5, 3]), center=E.arr("center", np.array([0.0, 0.1, 0.0])))
        vals = E.arr("vals", _gauss(ag.points, (0, 0.1, 0.0), 0.9))
        f = ag.interpolate(vals)
        q = E.arr("q", np.array([[0.0, 0.1, 0.0], [0.2, 0.1, 0.3], [0.0, 0.1, 1e-9]]))
        out += [ag, ag.spherical_average(vals)(E.arr("rq", np.array([0.0, 5e-9, 0.5]))), f(q), f(q, deriv=1), ag.integrate(vals)]
    elif v == 4:
        # angles exactly on the poles / the seam
        theta = E.arr("theta", np.array([0.0, np.pi, 2 * np.pi, 0.0, 1.0]))
        phi = E.arr("phi", np.array([0.0, np.pi, 0.0, np.pi / 2, 1e-12]))
        out += [u.generate_real_spherical_harmonics(2, theta, phi), u.generate_derivative_real_spherical_harmonics(2, theta, phi)]
    elif v == 5:
        # points exactly on the centre and on the z axis
        pts = E.arr("points", np.array([[0.1, 0.2, 0.3], [0.1, 0.2, 1.3], [0.1, 0.2, -0.7], [1.1, 0.2, 0.3], [0.1, 0.2, 0.3 + 1e-11]]))
        c = E.arr("center", np.array([0.1, 0.2, 0.3]))
        sph = u.convert_cart_to_sph(pts, c)
        out += [sph, u.solid_harmonics(2, E.arr("sph_pts", np.array(sph)))]
        out.append(u.convert_derivative_from_spherical_to_cartesian(0.3, 0.2, 0.1, 0.0, 0.0, 0.0))
        out.append(u.convert_derivative_from_spherical_to_cartesian(0.3, 0.2, 0.1, 1.0, 0.4, 0.0))
    elif v == 6:
        # a parent grid with coincident and boundary-distance points handed to get_localgrid
        pts = E.arr("points", np.array([[0.0, 0.0, 0.0], [0.0, 0.0, 0.0], [1.0, 0.0, 0.0], [0.0, 1.0, 0.0], [0.0, 0.0, 1.0 + 1e-12]]))
        g = Grid(pts, E.arr("weights", np.array([0.1, 0.2, 0.3, 0.4, 0.5])))
        lg = g.get_localgrid(E.arr("center", np.zeros(3)), 1.0)
        out += [lg, lg.indices, g.get_localgrid(E.arr("center2", np.array([1.0, 0.0, 0.0])), 0.0)]
    else:
        # transforms evaluated exactly on the ends of their domain
        from grid import rtransform as rt

        x = E.arr("x", np.array([-1.0, -1.0 + 1e-12, 0.0, 1.0 - 1e-12]))
        for tf in (rt.BeckeRTransform(0.0, 1.2), rt.KnowlesRTransform(0.0, 1.3, 2), rt.LinearFiniteRTransform(0.0, 5.0)):
            r = tf.transform(x)
            out += [r, tf.deriv(x), tf.inverse(E.arr("r_" + type(tf).__name__, r))]
        og = OneDGrid(E.arr("og_points", np.array([-1.0, -0.2, 0.5, 1.0 - 1e-9])), E.arr("og_weights", np.full(4, 0.5)), (-1.0, 1.0))
        out.append(rt.LinearFiniteRTransform(0.0, 3.0).transform_1d_grid(og))
    return out


@entry("dipole", 1.0)
def _(E, p):
    from grid.atomgrid import AtomGrid
    from grid.utils import dipole_moment_of_molecule

    g = AtomGrid(_rgrid(6), degrees=[5])
    dens = E.arr("density", _gauss(g.points, (0, 0, 0.2), 0.9))
    return [dipole_moment_of_molecule(g, dens, E.arr("coords", np.array([[0.0, 0.0, 0.0], [0.0, 0.0, 1.0]])), E.arr("charges", np.array([1.0, 1.0])))]


@entry("angular_convert", 1.0)
def _(E, p):
    from grid.angular import AngularGrid

    m = ["lebedev", "spherical", "maxdet", "ahrens_beylkin"][p % 4]
    sizes = E.arr("sizes", np.array([6, 14, 14, 30]), dtype=int) if p % 2 else E.lst("sizes_list", [6, 14, 14, 30])
    return [np.asarray(AngularGrid.convert_angular_sizes_to_degrees(sizes, m), dtype=float)]


# ---- saving, cube files, defaults ---------------------------------------------------------------------------


@entry("save_to_buffer", 1.0)
def _(E, p):
    """Grid.save / LocalGrid.save / AtomGrid.save / MolGrid.save into an in-memory file: the arrays handed to the
    constructors (and the grids' own arrays) must survive serialisation untouched."""
    import io

    from grid.atomgrid import AtomGrid
    from grid.basegrid import Grid
    from grid.becke import BeckeWeights
    from grid.molgrid import MolGrid

    n = 15
    g = Grid(E.arr("points", _pts3(n, 120)), E.arr("weights", _wts(n, 121)))
    out = []
    buf = io.BytesIO()
    g.save(buf)
    lg = g.get_localgrid(E.arr("center", np.zeros(3)), 1.0)
    lg.save(io.BytesIO())
    with np.load(io.BytesIO(buf.getvalue())) as z:
        out += [z["points"], z["weights"]]
    ag = AtomGrid(_rgrid(4), degrees=E.lst("degrees", [3, 5, 5, 3]), center=E.arr("acenter", np.array([0.1, 0.2, 0.3])))
    b2 = io.BytesIO()
    ag.save(b2)
    with np.load(io.BytesIO(b2.getvalue())) as z:
        out += [z["points"], z["center"]]
    if p % 2:
        mg = MolGrid(E.arr("atnums", np.array([1]), dtype=int), E.lst("atgrids", [ag]), BeckeWeights(), store=True)
        mg.save(io.BytesIO())
        out.append(mg.weights)
    return out


@entry("cube_roundtrip", 0.7)
def _(E, p):
    import os
    import shutil
    import tempfile

    from grid.cubic import UniformGrid

    g = UniformGrid(E.arr("origin", np.array([-1.0, -1.0, -1.0])), E.arr("axes", np.eye(3) * 0.5), E.arr("shape", np.array([4, 4, 5]), dtype=int))
    # (the tail of a tight Gaussian is far below 1e-99 - a three-digit exponent in the cube file; the values are the caller's)
    data = E.arr("data", np.exp(-(1.0, 60.0, 200.0)[p % 3] * np.sum(g.points**2, axis=1)))
    atcoords = E.arr("atcoords", np.array([[0.0, 0.0, 0.0], [0.0, 0.0, 0.9]]))
    atnums = E.arr("atnums", np.array([8, 1]), dtype=int)
    d = tempfile.mkdtemp(prefix="cube.", dir="/var/tmp")
    try:
        fn = os.path.join(d, "t.cube")
        g.generate_cube(fn, data, atcoords, atnums, pseudo_numbers=E.arr("pseudo", np.array([8.0, 1.0])) if p % 2 else None)
        g2, cd = UniformGrid.from_cube(fn, return_data=True)
    finally:
        shutil.rmtree(d, ignore_errors=True)
    return [g2, cd["data"], cd["atcoords"], np.asarray(cd["atnums"], dtype=float)]


@entry("defaults_and_rules", 1.0)
def _(E, p):
    """Constructors that fall back on library defaults (default radial grids, default degrees) and parameterised 1-D rules."""
    from grid import onedgrid as og
    from grid.atomgrid import AtomGrid
    from grid.molgrid import MolGrid

    atnums, atcoords = _two_atoms(E)
    out = []
    if p % 3 == 0:
        out.append(AtomGrid.from_preset(8, "coarse", center=E.arr("center", np.array([0.0, 0.0, 0.1]))))
    elif p % 3 == 1:
        out.append(MolGrid.from_preset(atnums, atcoords, E.lst("preset_list", ["coarse", "coarse"]), store=True))
    else:
        out.append(AtomGrid(_rgrid(3), center=E.arr("center", np.array([0.0, 0.0, 0.1]))))
    rules = [og.GaussLaguerre(6, 0.5), og.TanhSinh(7, 0.2), og.TrefethenCC(6, 5), og.TrefethenStripGC2(6, 1.2), og.ExpSinh(7, 0.3), og.SingleTanh(7, 0.2), og.ClenshawCurtis(6), og.FejerFirst(6), og.Simpson(7)]
    r = rules[p % len(rules)]
    f = E.arr("f", np.cos(r.points))
    out += [r, r.integrate(f)]
    return out


# ---- operations that raise by design: whatever they did before raising must be undone ----------------------------


@entry("invalid_calls", 2.5)
def _(E, p):
    """Each variant is rejected by the library (ValueError / TypeError) - possibly after part of the work was done.
    'After any public operation returns (or raises)' the caller's objects must be unchanged."""
    from grid.atomgrid import AtomGrid
    from grid.basegrid import Grid
    from grid.becke import BeckeWeights
    from grid.molgrid import MolGrid
    from grid.ode import solve_ode_bvp
    from grid.onedgrid import GaussLegendre
    from grid.periodicgrid import PeriodicGrid
    from grid.rtransform import BeckeRTransform

    v = p % 6
    if v == 0:
        g = Grid(E.arr("points", _pts3(10, 130)), E.arr("weights", _wts(10, 131)))
        return [g.moments(2, E.arr("centers", _pts3(2, 132)[:, :2]), E.arr("func_vals", _rs(133).rand(10)), "pure")]
    if v == 1:
        return [AtomGrid(_rgrid(5), degrees=E.lst("degrees", [3, 5, 7]), center=E.arr("center", np.zeros(3)))]  # wrong number of degrees
    if v == 2:
        atnums, atcoords = _two_atoms(E)
        ags = E.lst("atgrids", [AtomGrid(_rgrid(3), degrees=[3], center=atcoords[i].copy()) for i in range(2)])
        return [MolGrid(atnums, ags, E.arr("aim_weights", np.ones(7)), store=True)]  # wrong size
    if v == 3:
        x = E.arr("x", np.linspace(0, 1, 8))
        fx = E.cb("fx", lambda t: np.array(t, dtype=float), identity=True)
        return [solve_ode_bvp(x, fx, E.lst("coeffs", [1.0, 0.0, 1.0]), E.lst("bd_cond", [[0, 0, 0.0]]))]  # too few conditions
    if v == 4:
        pts = E.arr("points", _pts3(6, 134, 3.0))
        return [PeriodicGrid(pts, E.arr("weights", _wts(6, 135)), E.arr("realvecs", np.array([[1.0, 0, 0], [2.0, 0, 0]])), wrap=True)]  # singular cell
    bw = BeckeWeights()
    atnums, atcoords = _two_atoms(E)
    return [bw.generate_weights(E.arr("points", _pts3(8, 136)), atcoords, atnums, select=E.lst("select", [0, 1]), pt_ind=E.lst("pt_ind", [0]))]


@entry("ode_sparse_coefficients", 4.0)
def _(E, p):
    """ODEs whose lower-order coefficients vanish and whose leading coefficient is not one (y'' = f/2, 3y' = f, ...),
    solved as BVP and IVP, directly and through a linear map: coefficient patterns matter for which code path touches
    the callback's array."""
    from grid.ode import solve_ode_bvp, solve_ode_ivp
    from grid.rtransform import LinearFiniteRTransform

    patterns = [[0.0, 0.0, 2.0], [0.0, 3.0], [0.0, 0.0, 0.0, 1.5], [0.0, 1.0, 2.0], [0, 0, 2], [0.0, 0.0, 0.5]]
    co = patterns[p % len(patterns)]
    order = len(co) - 1
    lead_cb = p % 2 == 1
    coeffs = list(co)
    if lead_cb:
        coeffs[-1] = E.cb("a_lead", lambda t, v=float(co[-1]): v + 0.0 * np.asarray(t, dtype=float))
    coeffs = E.lst("coeffs", coeffs)
    fx = E.cb("fx", lambda t: np.array(t, dtype=float), identity=True) if p % 3 else E.cb("fx", lambda t: 1.0 + 0.0 * np.asarray(t, dtype=float))
    tf = LinearFiniteRTransform(0.0, 2.0) if p % 6 >= 3 else None
    out = []
    x = E.arr("x", np.linspace(-0.8, 0.8, 11) if tf is not None else np.linspace(0.0, 1.0, 11))
    if order == 1:
        bd = [[0, 0, 0.3]]
    elif order == 2:
        bd = [[0, 0, 0.0], [1, 0, 0.5]]
    else:
        bd = [[0, 0, 0.0], [0, 1, 0.2], [1, 0, 0.5]]
    out.append(solve_ode_bvp(x, fx, coeffs, E.lst("bd_cond", bd), transform=tf, tol=1e-6)(E.arr("eval", x[1:-1] * 0.9)))
    y0 = E.arr("y0", np.array([0.1, 0.2, -0.1][:order]))
    span = E.tup("x_span", (float(x[0]), float(x[-1])))
    out.append(solve_ode_ivp(span, fx, coeffs, y0, transform=tf, method=["DOP853", "RK45", "Radau"][p % 3])(E.arr("eval2", x[1:-1] * 0.9)))
    return out


@entry("invalid_calls_2", 2.5)
def _(E, p):
    """More operations that the library rejects part-way through (second batch)."""
    from grid.atomgrid import AtomGrid
    from grid.basegrid import OneDGrid
    from grid.becke import BeckeWeights
    from grid.cubic import UniformGrid
    from grid.molgrid import MolGrid
    from grid.ode import solve_ode_ivp
    from grid.poisson import solve_poisson_bvp
    from grid.rtransform import BeckeRTransform, InverseRTransform, LinearInfiniteRTransform

    v = p % 11
    if v == 9:  # an element of the molecule is missing from the caller's dictionary of radial grids
        atnums, atcoords = _two_atoms(E)
        return [MolGrid.from_preset(atnums, atcoords, "coarse", rgrid=E.dct("rgrid_dict", {8: _rgrid(5)}))]
    if v == 10:  # ... or from the dictionary of presets (detected after the first atom was built)
        atnums, atcoords = _two_atoms(E)
        return [MolGrid.from_preset(atnums, atcoords, E.dct("preset", {8: "coarse"}), rgrid=E.lst("rgrid_list", [_rgrid(5), _rgrid(4)]))]
    if v == 0:  # one degree sector too many
        return [AtomGrid.from_pruned(_rgrid(6), 1.0, E.lst("r_sectors", [0.5, 1.0]), E.lst("d_sectors", [3, 5, 7, 5]), center=E.arr("center", np.zeros(3)))]
    if v == 1:  # lists of different lengths for the atoms
        atnums, atcoords = _two_atoms(E)
        return [MolGrid.from_pruned(atnums, atcoords, E.lst("radius", [1.0, 0.6]), E.lst("r_sectors", [[0.5, 1.0], [0.7]]), E.lst("d_sectors", [[3, 5, 3]]), rgrid=_rgrid(4), aim_weights=BeckeWeights())]
    if v == 2:  # number of selected atoms does not match the number of sectors
        atnums, atcoords = _two_atoms(E)
        return [BeckeWeights().generate_weights(E.arr("points", _pts3(8, 140)), atcoords, atnums, select=E.lst("select", [0]), pt_ind=E.lst("pt_ind", [0, 4, 8]))]
    if v == 3:  # wrong number of function values
        g = UniformGrid(E.arr("origin", np.zeros(3)), E.arr("axes", np.eye(3) * 0.5), E.arr("shape", np.array([5, 5, 5]), dtype=int))
        return [g.interpolate(E.arr("points", _pts3(2, 141, 0.5) + 1.0), E.arr("values", np.ones(100)))]
    if v == 4:  # boundary of the wrong type, detected after the density was looked at
        g, tf = _poisson_setup(E, 8, 3)
        return [solve_poisson_bvp(g, E.arr("func_vals", _gauss(g.points, g.center, 1.0)), InverseRTransform(tf), boundary=1, ode_params=E.dct("ode_params", {"tol": 1e-4}))]
    if v == 5:  # grid domain outside the transform domain
        og = OneDGrid(E.arr("og_points", np.linspace(-0.9, 0.9, 7)), E.arr("og_weights", np.ones(7)), (-1.0, 1.0))
        return [LinearInfiniteRTransform(0.1, 5.0).transform_1d_grid(og)]
    if v == 6:  # wrong number of initial values
        fx = E.cb("fx", lambda t: np.array(t, dtype=float), identity=True)
        return [solve_ode_ivp(E.tup("x_span", (0.0, 1.0)), fx, E.lst("coeffs", [1.0, 0.5, 1.0]), E.arr("y0", np.array([0.0, 1.0, 2.0])))]
    if v == 7:  # second derivative of an interpolant in Cartesian coordinates is not supported: raises after the splines were built
        g = AtomGrid(_rgrid(5), degrees=[5], center=np.array([0.1, 0.0, 0.0]))
        it = g.interpolate(E.arr("func_vals", _gauss(g.points, g.center, 0.8)))
        return [it(E.arr("points", _pts3(4, 142, 0.8)), deriv=2)]
    # element without tabulated default radial grid / preset data
    return [AtomGrid.from_preset(119, "coarse", center=E.arr("center", np.zeros(3)))]


# ---- object lifecycles: construct from the caller's arrays, then use the public setters / methods -----------------


@entry("setters_after_construction", 3.0)
def _(E, p):
    """The arrays a grid was constructed from stay the caller's: assigning new points / weights to the grid later (or to a
    local grid / transformed grid derived from it) must not write into them."""
    from grid.atomgrid import AtomGrid
    from grid.basegrid import Grid, OneDGrid
    from grid.becke import BeckeWeights
    from grid.molgrid import MolGrid
    from grid.periodicgrid import PeriodicGrid
    from grid.rtransform import IdentityRTransform, LinearFiniteRTransform

    n = 12
    v = p % 6
    out = []
    if v == 0:
        g = Grid(E.arr("points", _pts3(n, 150)), E.arr("weights", _wts(n, 151)))
        g.points = E.arr("new_points", _pts3(n, 152) + 1.0)
        g.weights = E.arr("new_weights", _wts(n, 153))
        out += [g, g.get_localgrid(E.arr("center", np.ones(3)), 1.5)]
    elif v == 1:
        g = Grid(E.arr("points", _pts3(n, 154)), E.arr("weights", _wts(n, 155)))
        c = E.arr("center", np.array([0.1, 0.2, 0.3]))
        lg = g.get_localgrid(c, np.inf)
        lg.points = lg.points - np.asarray(c)
        lg.weights = lg.weights * 2.0
        out += [g, lg]
    elif v == 2:
        og = OneDGrid(E.arr("points", np.linspace(0.0, 2.5, 6)), E.arr("weights", np.full(6, 0.5)), (0.0, 3.0))
        rg = IdentityRTransform().transform_1d_grid(og)
        rg.points = 2.0 * rg.points
        rg2 = LinearFiniteRTransform(0.0, 3.0).transform_1d_grid(OneDGrid(E.arr("points2", np.linspace(-0.9, 0.9, 5)), E.arr("weights2", np.ones(5)), (-1.0, 1.0)))
        rg2.weights = rg2.weights * 0.5
        out += [og, rg, rg2]
    elif v == 3:
        pg = PeriodicGrid(E.arr("points", np.array([0.1, 0.4, 0.7])), E.arr("weights", np.ones(3)), E.arr("realvecs", np.array([1.0])), wrap=bool(p % 12 >= 6))
        pg.points = E.arr("new_points", np.array([0.15, 0.45, 0.75]))
        out += [pg, pg.get_localgrid(E.arr("center", np.array(0.5)), 0.3)]
    elif v == 4:
        ag = AtomGrid(_rgrid(4), degrees=[5], center=E.arr("center", np.array([0.2, 0.0, -0.1])))
        ag.weights = E.arr("new_weights", _wts(ag.size, 156))
        f = E.arr("f", _gauss(ag.points, ag.center, 0.9))
        out += [ag.integrate(f), ag.get_localgrid(E.arr("lc", np.array([0.2, 0.0, 0.0])), 1.0)]
    else:
        atnums, atcoords = _two_atoms(E)
        ags = [AtomGrid(_rgrid(3), degrees=[3], center=atcoords[i].copy()) for i in range(2)]
        mg = MolGrid(atnums, ags, E.arr("aim_weights", _rs(157).uniform(0.2, 0.8, sum(a.size for a in ags))), store=True)
        mg.weights = E.arr("new_weights", _wts(mg.size, 158))
        mg.points = E.arr("new_points", np.array(mg.points) + 0.1)
        out += [mg, mg.get_localgrid(E.arr("center", np.zeros(3)), 1.2)]
    return out
