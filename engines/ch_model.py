"""Reference models for the cache-history engine (C19).

Everything here is computed from the *shipped data files* read by the harness itself (np.load on a
BytesIO of the real bytes) and from closed formulas - never from grid's caches or loader.
"""

from __future__ import annotations

import io
import json
import os

import numpy as np
from scipy.spatial.transform import Rotation as R

from simkit.store import data_root, pristine_bytes

METHODS = ("lebedev", "spherical", "maxdet", "ahrens_beylkin")
_PKG = {
    "lebedev": "grid.data.lebedev",
    "spherical": "grid.data.spherical_design",
    "maxdet": "grid.data.maxdet",
    "ahrens_beylkin": "grid.data.ahrens_beylkin",
}
_TABLES = None
_PRISTINE = {}
_COULOMB = None


def tables():
    """{method: sorted list of (degree, size)} - snapshot of the library's constant tables."""
    global _TABLES
    if _TABLES is None:
        import grid.angular as ga

        src = {
            "lebedev": ga.LEBEDEV_DEGREES,
            "spherical": ga.SPHERICAL_DEGREES,
            "maxdet": ga.MAX_DET_DEGREES,
            "ahrens_beylkin": ga.AHRENS_BEYLKIN_DEGREES,
        }
        _TABLES = {m: sorted((int(d), int(s)) for d, s in t.items()) for m, t in src.items()}
    return _TABLES


def resolve(method, kind, value):
    """Smallest supported (degree, size) not below the request; None if above the maximum."""
    tab = tables()[method]
    col = 0 if kind == "degree" else 1
    best = None
    for d, s in tab:
        v = (d, s)[col]
        if v >= value and (best is None or v < best[col]):
            best = (d, s)
    return best


def pristine(method, degree):
    """(points, weights as the public AngularGrid exposes them), write-protected."""
    key = (method, int(degree))
    pw = _PRISTINE.get(key)
    if pw is None:
        size = dict(tables()[method])[int(degree)]
        name = f"{method}_{int(degree)}_{size}.npz"
        with np.load(io.BytesIO(pristine_bytes(_PKG[method], name))) as npz:
            pts = np.array(npz["points"], dtype=float)
            w = np.array(npz["weights"], dtype=float)
        if len(w) == 1:
            w = np.ones(len(pts)) * w
        raw_w = w.copy()
        if method in ("lebedev", "spherical"):
            w = w * 4 * np.pi
        pts.setflags(write=False)
        w.setflags(write=False)
        raw_w.setflags(write=False)
        pw = (pts, w, raw_w)
        _PRISTINE[key] = pw
    return pw


def coulomb_table():
    global _COULOMB
    if _COULOMB is None:
        _COULOMB = json.loads(pristine_bytes("grid.data", "atomic_gauss_params.json").decode("utf-8"))
    return _COULOMB


def ulp_close(a, b, ulps=4):
    a = np.asarray(a, dtype=float)
    b = np.asarray(b, dtype=float)
    if a.shape != b.shape:
        return False
    eq = a == b
    if eq.all():
        return True
    tol = ulps * np.spacing(np.maximum(np.abs(a), np.abs(b)))
    return bool(np.all(eq | (np.abs(a - b) <= tol)))


def close(a, b, rtol=1e-12, scale=None):
    """Relative closeness on the array scale; NaNs must coincide."""
    a = np.asarray(a, dtype=float)
    b = np.asarray(b, dtype=float)
    if a.shape != b.shape:
        return False
    na, nb = np.isnan(a), np.isnan(b)
    if (na != nb).any():
        return False
    if a.size == 0:
        return True
    fin = ~na
    ia, ib = np.isinf(a), np.isinf(b)
    if (ia != ib).any() or (a[ia] != b[ia]).any():
        return False
    fin &= ~ia
    if not fin.any():
        return True
    s = scale if scale is not None else max(1.0, float(np.max(np.abs(b[fin]))))
    return bool(np.all(np.abs(a[fin] - b[fin]) <= rtol * np.maximum(np.abs(b[fin]), s)))


# ---- radial grids (workload; built with the library's 1D rules and transforms) -------------------


def build_rgrid(rspec):
    """rspec -> OneDGrid.  Kinds:
    ["gl", n, rmin, R]         GaussLegendre(n) through BeckeRTransform(rmin, R)
    ["uni", n, rmin, rmax]     UniformInteger(n) through PowerRTransform (scale inferred from first grid)
    ["zero", n, rmax]          explicit grid with a node at r = 0
    ["tiny", n, rmax]          explicit grid whose first node is 1e-9 (< 1e-8 branch)
    """
    from grid.basegrid import OneDGrid
    from grid.onedgrid import GaussLegendre, UniformInteger
    from grid.rtransform import BeckeRTransform, PowerRTransform

    kind = rspec[0]
    n = int(rspec[1])
    if kind == "gl":
        return BeckeRTransform(float(rspec[2]), float(rspec[3])).transform_1d_grid(GaussLegendre(max(n, 2)))
    if kind == "uni":
        return PowerRTransform(float(rspec[2]), float(rspec[3])).transform_1d_grid(UniformInteger(max(n, 2)))
    rmax = float(rspec[2])
    pts = np.linspace(0.0, rmax, n) if n > 1 else np.array([0.0])
    if kind == "tiny":
        pts = pts.copy()
        pts[0] = 1e-9
    wts = np.full(n, rmax / n)
    return OneDGrid(pts, wts, (0.0, max(rmax, 1.0)))


def model_atom(rpoints, rweights, degrees, center, rotate, method):
    """Product grid from pristine data: (points, weights, indices)."""
    pts, wts = [], []
    indices = np.zeros(len(degrees) + 1, dtype=int)
    for i, d in enumerate(degrees):
        p, w, _ = pristine(method, d)
        if rotate != 0:
            p = p @ R.random(random_state=rotate + i).as_matrix()
        pts.append(p * rpoints[i])
        wts.append(w * rweights[i] * rpoints[i] ** 2)
        indices[i + 1] = indices[i] + len(p)
    return np.vstack(pts) + np.asarray(center, dtype=float), np.hstack(wts), indices


def model_shell(rpoints, rweights, degrees, i, rotate, method, r_sq):
    p, w, _ = pristine(method, degrees[i])
    if rotate != 0:
        p = p @ R.random(random_state=rotate + i).as_matrix()
    pts = p * rpoints[i]
    wts = w * rweights[i]
    if r_sq:
        wts = wts * rpoints[i] ** 2
    return pts, wts


def pruned_degrees(rpoints, radius, r_sectors, sector_degrees):
    """Degree per radial point: sector index = number of boundaries strictly below r."""
    bounds = np.asarray(r_sectors, dtype=float) * radius
    out = []
    for r in rpoints:
        out.append(sector_degrees[int(np.sum(r > bounds))])
    return out


# ---- closed forms of the b-inferring transforms ---------------------------------------------------


def tf_closed_form(cls, rmin, rmax, b, method, x):
    x = np.asarray(x, dtype=float)
    with np.errstate(all="ignore"):
        if cls == "linear":
            a = (rmax - rmin) / b
            if method == "transform":
                return a * x + rmin
            if method == "deriv":
                return np.ones(x.size) * a
            if method in ("deriv2", "deriv3"):
                return np.zeros(x.size)
            if method == "inverse":
                return (x - rmin) / a
        if cls == "exp":
            a = np.log(rmax / rmin) / b
            if method == "transform":
                return rmin * np.exp(x * a)
            if method == "deriv":
                return rmin * np.exp(x * a) * a
            if method == "deriv2":
                return rmin * np.exp(x * a) * a * a
            if method == "deriv3":
                return rmin * np.exp(x * a) * a * a * a
            if method == "inverse":
                return np.log(x / rmin) / a
        if cls == "power":
            p = (np.log(rmax) - np.log(rmin)) / np.log(b + 1)
            if method == "transform":
                return rmin * np.power(x + 1, p)
            if method == "deriv":
                return p * rmin * np.power(x + 1, p - 1)
            if method == "deriv2":
                return p * (p - 1) * rmin * np.power(x + 1, p - 2)
            if method == "deriv3":
                return p * (p - 1) * (p - 2) * rmin * np.power(x + 1, p - 3)
            if method == "inverse":
                return np.power(x / rmin, 1.0 / p) - 1
    raise ValueError((cls, method))


SCALE_SETTING = {
    "linear": ("transform", "deriv", "inverse"),
    "exp": ("transform", "deriv", "deriv2", "deriv3", "inverse"),
    "power": ("transform", "deriv", "deriv2", "deriv3", "inverse"),
}
