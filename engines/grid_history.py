"""C10 - local grids and selections answer for the *current* grid after any history.

Engine `grid-history`: seeded search over sequences of constructions, queries, reassignments of
points/weights, failed calls and selections on one set of live grid objects; the lazily built and
reused neighbour tree is the state under test.  See DESIGN.md section 3 (C10).
"""

from __future__ import annotations

import copy
import random

import numpy as np

from simkit import procstate
from simkit.core import library_raised, Counter, EventLog, Violation, hash_array

PID = "C10"
KINDS = ("grid1", "grid2", "grid3", "oned", "rule", "atom", "mol", "uniform", "tensor", "periodic", "angular", "shell", "intgrid")
SELECTABLE = ("grid1", "grid2", "grid3", "oned", "rule", "periodic", "intgrid")
QUERYABLE = ("grid1", "grid2", "grid3", "oned", "rule", "atom", "mol", "uniform", "tensor", "local", "angular", "shell", "intgrid")
CENTER_KINDS = ("random", "onpoint", "far", "centroid", "badshape", "natural")
RADIUS_KINDS = ("zero", "tiny", "q10", "q50", "q90", "huge", "inf", "neg", "nan", "exact", "just_below", "just_above")
INDEX_KINDS = ("int", "negint", "npint", "npint32", "slice", "slice_step", "intarray", "mask", "list", "uintarray", "negarray", "boollist", "lastint", "slice_rev", "slice_neg")
SET_KINDS = ("translate", "scale", "permute", "fresh", "badshape", "same")


# ================================================================================================
# generation
# ================================================================================================


def _gen_new(rng, cfg):
    kind = rng.choice(cfg["kinds"])
    n = rng.randint(1, 12) if rng.random() < 0.4 else rng.randint(13, 120)
    if rng.random() < 0.02:
        n = rng.choice([700, 2500, 6000])  # (sizes are inputs too: a few grids are large)
    if kind in ("grid1", "grid2", "grid3", "oned", "periodic"):
        dim = {"grid1": 1, "grid2": 2, "grid3": 3, "oned": 1}.get(kind) or rng.choice([1, 2, 3])
        # (a 1-D PeriodicGrid without lattice vectors cannot be constructed today - a C11 matter, not generated here)
        lattice = rng.random() < 0.6 or (kind == "periodic" and dim == 1)
        return ["new", kind, {"n": n, "dim": dim, "seed": rng.randrange(10**6), "lattice": lattice, "dup": rng.random() < 0.15,
                              "wrap": rng.random() < 0.5, "aligned": rng.random() < 0.4, "cell": rng.choice([0.3, 1.0, 2.0, 4.5])}]
    if kind == "rule":
        return ["new", kind, {"n": rng.randint(2, 40), "which": rng.choice(["gl", "gl", "uniform_integer", "trapezoid"])}]
    if kind == "intgrid":
        # points stored with an integer dtype (an index lattice); centres are real numbers all the same
        return ["new", kind, {"n": rng.randint(3, 40), "dim": rng.choice([1, 2, 3]), "seed": rng.randrange(10**6), "dtype": rng.choice(["int64", "int32", "float32"])}]
    if kind == "atom":
        return ["new", kind, {"nr": rng.randint(2, 6), "deg": rng.choice([3, 5, 7]), "center": [round(rng.uniform(-2, 2), 2) for _ in range(3)] if rng.random() < 0.8 else [0.0, 0.0, 0.0], "rotate": rng.choice([0, 0, 11]),
                              # the order of the radial nodes is the caller's: ascending, descending (decreasing maps), any
                              "rorder": rng.choice(["asc", "asc", "desc", "shuffled"]), "pruned": rng.random() < 0.3}]
    if kind == "mol":
        return ["new", kind, {"nr": rng.randint(2, 4), "deg": rng.choice([3, 5]), "d": rng.choice([1.0, 1.4, 2.5]), "store": rng.random() < 0.5, "natom": rng.choice([1, 2, 2, 3])}]
    if kind == "uniform":
        dim = rng.choice([2, 3])
        return ["new", kind, {"dim": dim, "shape": [rng.randint(2, 5) for _ in range(dim)], "spacing": rng.choice([0.3, 0.5, 1.0]), "skew": rng.random() < 0.3, "origin": [round(rng.uniform(-1, 1), 2) for _ in range(dim)]}]
    if kind == "tensor":
        dim = rng.choice([2, 3])
        return ["new", kind, {"dim": dim, "ns": [rng.randint(2, 5) for _ in range(dim)]}]
    if kind == "angular":
        return ["new", kind, {"deg": rng.choice([3, 5, 7, 9, 11]), "method": rng.choice(["lebedev", "spherical", "maxdet", "ahrens_beylkin"])}]
    if kind == "shell":
        # the per-shell grid an atomic grid hands out: built by the library through the points/weights setters
        return ["new", kind, {"nr": rng.randint(2, 5), "deg": rng.choice([3, 5, 7]), "i": rng.randrange(5), "rotate": rng.choice([0, 3]), "r_sq": rng.random() < 0.5}]
    raise ValueError(kind)


# how the caller writes the reassignment: `g.points = new_array`; the augmented form `g.points += delta` (Python reads the
# property, NumPy updates that array in place, and the setter then receives the very object the grid already holds); or
# `p = g.points; p[...] = values; g.points = p`.  All three go through the setter, so all three are reassignments.
SET_STYLES = ["new", "new", "new", "augmented", "same_object"]


def _gen_op(rng, cfg):
    kinds = cfg["ops"]
    k = rng.choices([x for x, _ in kinds], weights=[w for _, w in kinds])[0]
    h = rng.randrange(1000)
    if k == "new":
        return _gen_new(rng, cfg)
    if k == "query":
        return ["query", h, rng.choices(CENTER_KINDS, weights=[5, 3, 1.5, 1, 0.6, 2.5])[0], rng.choices(RADIUS_KINDS, weights=[1.5, 1.5, 3, 3, 2, 1, 1.5, 0.5, 0.5, 1.5, 1.2, 1.2])[0], rng.randrange(10**6)]
    if k == "requery":
        return ["requery", h]
    if k == "nudge":
        return ["nudge", h, rng.randrange(10**6), rng.choice([1e-6, 1e-5, 3e-5, 1e-4, 0.0])]
    if k == "set_points":
        return ["set_points", h, rng.choices(SET_KINDS, weights=[3, 2, 2, 2, 1, 0.5])[0], rng.randrange(10**6), rng.choice(SET_STYLES)]
    if k == "set_weights":
        return ["set_weights", h, rng.choices(SET_KINDS, weights=[1, 3, 2, 2, 1, 0.5])[0], rng.randrange(10**6), rng.choice(SET_STYLES)]
    if k == "select":
        return ["select", h, rng.choice(INDEX_KINDS), rng.randrange(10**6)]
    if k == "local_of":
        return ["local_of", h, rng.choices(RADIUS_KINDS[2:7], weights=[1, 3, 3, 1, 1])[0], rng.randrange(10**6)]
    raise ValueError(k)


BASE_OPS = [("new", 3), ("query", 10), ("requery", 2), ("nudge", 2), ("set_points", 4), ("set_weights", 2), ("select", 4), ("local_of", 1.5)]


# ================================================================================================
# construction helpers
# ================================================================================================


def _rand_points(seed, n, dim, dup):
    r = np.random.RandomState(seed % (2**32))
    pts = r.uniform(-2.0, 2.0, size=(n, dim))
    if r.rand() < 0.3:
        pts = np.round(pts, 1)  # lattice-like coordinates: many exact distance ties
    if dup and n > 2:
        pts[n // 2] = pts[0]
    w = r.uniform(0.1, 1.0, size=n)
    if dim == 1:
        return pts[:, 0].copy(), w
    return pts, w


def _build(p_kind, p):
    from grid.atomgrid import AtomGrid
    from grid.basegrid import Grid, OneDGrid
    from grid.becke import BeckeWeights
    from grid.cubic import Tensor1DGrids, UniformGrid
    from grid.molgrid import MolGrid
    from grid.onedgrid import GaussLegendre
    from grid.periodicgrid import PeriodicGrid
    from grid.rtransform import BeckeRTransform

    if p_kind in ("grid1", "grid2", "grid3"):
        pts, w = _rand_points(p["seed"], p["n"], p["dim"], p["dup"])
        return Grid(pts, w), {}
    if p_kind == "oned":
        pts, w = _rand_points(p["seed"], p["n"], 1, p["dup"])
        return OneDGrid(pts, w, (-2.5, 2.5)), {"domain": (-2.5, 2.5)}
    if p_kind == "rule":
        from grid.onedgrid import Trapezoidal, UniformInteger

        g = {"gl": GaussLegendre, "uniform_integer": UniformInteger, "trapezoid": Trapezoidal}[p.get("which", "gl")](p["n"])
        return g, {"domain": tuple(g.domain)}
    if p_kind == "intgrid":
        r = np.random.RandomState(p["seed"] % (2**32))
        pts = r.randint(-4, 5, size=(p["n"], p["dim"])).astype(p["dtype"])
        if p["dim"] == 1:
            pts = pts[:, 0].copy()
        return Grid(pts, r.uniform(0.1, 1.0, size=p["n"])), {}
    if p_kind == "periodic":
        pts, w = _rand_points(p["seed"], p["n"], p["dim"], p["dup"])
        if p["lattice"]:
            cell = float(p.get("cell", 4.5))
            r = np.random.RandomState((p["seed"] + 1) % (2**32))
            if p["dim"] == 1:
                rv = np.array([cell])
                full = rv.reshape(1, 1)
            else:
                nv = r.randint(1, p["dim"] + 1)
                full = np.eye(p["dim"]) * cell + r.uniform(-0.3, 0.3, size=(p["dim"], p["dim"])) * (cell / 4.5)
                rv = full[:nv]
            if p.get("aligned"):
                # lattice-aligned points: fractional coordinates k/m (some exactly on cell faces, some outside the cell)
                m = int(r.choice([3, 4, 6, 10, 12]))
                frac = r.randint(-m, 2 * m + 1, size=(p["n"], p["dim"])) / m
                pts = frac @ full
                if p["dim"] == 1:
                    pts = pts[:, 0].copy()
            return PeriodicGrid(pts, w, rv, wrap=bool(p.get("wrap"))), {"realvecs": np.array(rv)}
        return PeriodicGrid(pts, w), {"realvecs": None}
    if p_kind == "atom":
        rg = BeckeRTransform(0.0, 1.0).transform_1d_grid(GaussLegendre(p["nr"]))
        ro = p.get("rorder", "asc")
        if ro != "asc":
            from grid.basegrid import OneDGrid

            idx = np.arange(rg.size)[::-1] if ro == "desc" else np.random.RandomState(p["nr"] * 7 + p["deg"]).permutation(rg.size)
            rg = OneDGrid(np.array(rg.points[idx]), np.array(rg.weights[idx]), (0, np.inf))
        degs = [p["deg"]]
        if p.get("pruned"):
            degs = [(3, p["deg"])[k % 2] for k in range(rg.size)]
        return AtomGrid(rg, degrees=degs, center=np.array(p["center"], dtype=float), rotate=p["rotate"]), {}
    if p_kind == "mol":
        rg = BeckeRTransform(0.0, 1.0).transform_1d_grid(GaussLegendre(p["nr"]))
        coords = np.array([[0.0, 0.0, 0.0], [p["d"], 0.0, 0.0], [0.0, p["d"], 0.3]])[: p["natom"]]
        atnums = np.array([8, 1, 1])[: p["natom"]]
        ags = [AtomGrid(rg, degrees=[p["deg"]], center=c) for c in coords]
        return MolGrid(atnums, ags, BeckeWeights(order=3), store=p["store"]), {}
    if p_kind == "uniform":
        dim = p["dim"]
        axes = np.eye(dim) * p["spacing"]
        if p["skew"]:
            axes[0, 1] = 0.2 * p["spacing"]
        return UniformGrid(np.array(p["origin"], dtype=float), axes, np.array(p["shape"]), weight="Rectangle"), {}
    if p_kind == "tensor":
        gs = [GaussLegendre(n) for n in p["ns"]]
        return Tensor1DGrids(*gs), {}
    if p_kind == "angular":
        from grid.angular import AngularGrid

        return AngularGrid(degree=p["deg"], method=p["method"]), {}
    if p_kind == "shell":
        rg = BeckeRTransform(0.0, 1.0).transform_1d_grid(GaussLegendre(p["nr"]))
        ag = AtomGrid(rg, degrees=[p["deg"]], center=np.array([0.2, -0.1, 0.4]), rotate=p["rotate"])
        return ag.get_shell_grid(p["i"] % p["nr"], r_sq=p["r_sq"]), {}
    raise ValueError(p_kind)


class Live:
    __slots__ = ("kind", "g", "meta", "last_query", "reassigned", "built_at", "failed_last", "queries", "held")

    def __init__(self, kind, g, meta):
        self.kind = kind
        self.g = g
        self.meta = meta
        self.last_query = None
        self.reassigned = 0
        self.failed_last = False
        self.queries = 0
        self.held = None


class Ctx:
    def __init__(self, spec, known):
        self.spec = spec
        self.known = known
        self.log = EventLog()
        self.faults = Counter()
        self.probes = Counter()
        self.states = set()
        self.violations = []
        self.known_hits = []
        self.objs = []
        self.step = 0
        self.nontrivial = False

    def violate(self, inv, opkind, sig, detail):
        cls = f"{PID}:{inv}:{opkind}"
        key = f"{cls}:{sig}"
        if key in self.known:
            self.known_hits.append(key)
            self.log.add(self.step, "known", key)
            return
        self.violations.append(Violation(cls, key, detail, self.step))
        self.log.add(self.step, "VIOLATION", key)

    def pick(self, h, kinds):
        lst = [o for o in self.objs if o.kind in kinds]
        return lst[h % len(lst)] if lst else None


def _outcome(fn):
    try:
        return ("ok", fn())
    except BaseException as exc:  # noqa: BLE001
        if isinstance(exc, (KeyboardInterrupt, SystemExit)) or type(exc).__name__ == "_RunTimeout":
            raise
        return ("raise", exc)


def _model(o):
    """The grid's *current* points and weights, read back through the public properties."""
    return np.asarray(o.g.points), np.asarray(o.g.weights)


def _tree_state(o):
    t = getattr(o.g, "_kdtree", "absent")
    return "absent" if isinstance(t, str) else ("none" if t is None else "built")


def _note_state(ctx, o, what):
    ctx.states.add(f"{o.kind}:{_tree_state(o)}:r{min(o.reassigned, 3)}:{'F' if o.failed_last else '-'}:{what}")


# ---- centres and radii ------------------------------------------------------------------------------


def _center_for(o, ckind, seed):
    pts, _ = _model(o)
    r = np.random.RandomState(seed % (2**32))
    one_d = pts.ndim == 1
    dim = 1 if one_d else pts.shape[1]
    nat = None
    if ckind == "natural":
        # the object's own reference point, exactly as the object reports it: the nucleus of an atomic grid, one of the
        # nuclei of a molecular grid, the origin of a lattice, the centre of a local grid, the centre of the unit sphere
        g = o.g
        try:
            if getattr(g, "atcoords", None) is not None:
                nat = np.array(g.atcoords[r.randint(len(g.atcoords))], dtype=float)
            elif getattr(g, "center", None) is not None and np.ndim(g.center) <= 1:
                nat = np.array(g.center, dtype=float)
            elif getattr(g, "origin", None) is not None:
                nat = np.array(g.origin, dtype=float)
            elif o.kind in ("angular", "shell"):
                nat = np.zeros(dim)
        except Exception:  # noqa: BLE001
            nat = None
        if nat is not None and (nat.size != dim):
            nat = None
    if nat is not None:
        c = nat.reshape(dim) if not one_d else np.array(float(np.ravel(nat)[0]))
    elif ckind in ("onpoint", "natural") and len(pts):
        c = np.array(pts[r.randint(len(pts))], dtype=float)
    elif ckind == "far":
        c = np.full(dim, 1e3) if not one_d else np.array(1e3)
    elif ckind == "centroid" and len(pts):
        c = np.mean(pts, axis=0)
    elif ckind == "badshape":
        c = np.zeros(dim + 1)
        return c, False
    else:
        lo, hi = (np.min(pts), np.max(pts)) if len(pts) else (-1.0, 1.0)
        c = r.uniform(lo - 0.2, hi + 0.2, size=dim)
        if one_d:
            c = np.array(c[0])
    if one_d:
        c = np.asarray(c, dtype=float).reshape(())
        if r.rand() < 0.5:
            c = float(c)
    else:
        # the same centre as ndarray / list / tuple (the library documents "float or np.array", np.asarray takes all)
        u = r.rand()
        c = np.asarray(c, dtype=float)
        if u < 0.2:
            c = [float(v) for v in c]
        elif u < 0.3:
            c = tuple(float(v) for v in c)
    return c, True


def _dist(pts, c):
    if pts.ndim == 1:
        return np.abs(pts - np.asarray(c, dtype=float))
    d = pts - np.asarray(c, dtype=float)
    return np.sqrt(np.sum(d * d, axis=1))


def _radius_for(o, rkind, c, seed, cvalid):
    pts, _ = _model(o)
    if rkind == "inf":
        return np.inf, True
    if rkind == "neg":
        return -0.5, False
    if rkind == "nan":
        return float("nan"), False
    if rkind == "zero":
        return 0.0, True
    if rkind == "tiny":
        # (down to the smallest positive number: squares of such radii underflow)
        return (1e-12, 1e-12, 1e-200, 5e-324, np.float64(1e-170))[(seed // 13) % 5], True
    if rkind == "huge":
        # "huge" goes up to the largest finite number, as a Python float or a NumPy scalar: squares of such radii overflow
        return (1e6, 1e6, 1e155, 1.0e300, 1.7976931348623157e308, np.float64(1e200), np.float64(1.7976931348623157e308))[(seed // 13) % 7], True
    if not cvalid or len(pts) == 0:
        return 1.0, True
    d = np.sort(_dist(pts, c))
    if rkind == "exact":
        # exactly the distance of some point: a boundary tie by construction
        return float(d[(seed // 7) % len(d)]), True
    if rkind in ("just_below", "just_above"):
        # a hair (relative 1e-6) inside / outside some point's distance: far outside the don't-care band of 1e-9, so that
        # point must be excluded / included - an implementation that pads or shrinks the radius is caught
        dk = float(d[(seed // 7) % len(d)])
        if dk <= 0.0:
            return 1e-7, True
        return (dk * (1.0 - 1e-6) if rkind == "just_below" else dk * (1.0 + 1e-6)), True
    q = {"q10": 0.1, "q50": 0.5, "q90": 0.9}[rkind]
    i = min(len(d) - 1, int(q * len(d)))
    lo = d[i]
    hi = d[i + 1] if i + 1 < len(d) else d[i] + 1.0
    rad = float(0.5 * (lo + hi))
    # the same radius as Python float / NumPy float64 / NumPy float32 (the float32 *value* is what the oracle uses)
    flav = (seed // 11) % 5
    if flav == 3:
        return np.float64(rad), True
    if flav == 4 and hi - lo > 1e-4 * max(1.0, rad):
        return np.float32(rad), True
    return rad, True


# ---- the step oracle ---------------------------------------------------------------------------------


def _check_local(ctx, opkind, o, lg, c, radius):
    pts, wts = _model(o)
    sig = o.kind
    ok = True
    idx = getattr(lg, "indices", None)
    if idx is None:
        ctx.violate("no-indices", opkind, sig, "local grid has no index array")
        return False
    idx = np.asarray(idx)
    if idx.ndim != 1 or (idx.size and idx.dtype.kind not in "iu"):
        ctx.violate("indices-dtype", opkind, sig, f"index array has dtype {idx.dtype} ndim {idx.ndim}")
        return False
    n = len(pts)
    if idx.size and (idx.min() < 0 or idx.max() >= n):
        ctx.violate("indices-range", opkind, sig, "index array points outside the parent grid")
        return False
    if len(np.unique(idx)) != len(idx):
        ctx.violate("duplicate", opkind, sig, "a parent point appears more than once in the local grid")
        ok = False
    D = _dist(pts, c)
    if np.isinf(radius):
        must = np.ones(n, dtype=bool)
        dontcare = np.zeros(n, dtype=bool)
    else:
        tol = 1e-9 * max(1.0, radius)
        dontcare = (np.abs(D - radius) <= tol) & ~((D == 0.0) & (radius >= 0.0))
        must = (D <= radius) & ~dontcare
    inside = np.zeros(n, dtype=bool)
    inside[idx] = True
    missing = must & ~inside
    extra = inside & ~must & ~dontcare
    if missing.any() or extra.any():
        ctx.violate(
            "membership", opkind, sig,
            f"{o.kind}: local grid around {np.round(np.asarray(c, dtype=float), 4).tolist()} r={radius}: {int(missing.sum())} points within the radius are missing, "
            f"{int(extra.sum())} returned points lie outside (grid has {n} points; tree={_tree_state(o)}, reassigned {o.reassigned}x)",
        )
        ok = False
    lp, lw = np.asarray(lg.points), np.asarray(lg.weights)
    if lp.shape[0] != idx.shape[0] or lw.shape != (idx.shape[0],):
        ctx.violate("shape", opkind, sig, f"local grid has {lp.shape[0]} points, {lw.shape} weights, {idx.shape[0]} indices")
        return False
    if idx.size:
        if not np.array_equal(lp, pts[idx]):
            ctx.violate("points-map", opkind, sig, f"{o.kind}: local points are not parent.points[indices] (tree={_tree_state(o)}, reassigned {o.reassigned}x)")
            ok = False
        if not np.array_equal(lw, wts[idx]):
            ctx.violate("weights-map", opkind, sig, f"{o.kind}: local weights are not parent.weights[indices]")
            ok = False
    cc = getattr(lg, "center", None)
    if cc is None or not np.array_equal(np.asarray(cc, dtype=float), np.asarray(c, dtype=float)):
        ctx.violate("center", opkind, sig, "local grid does not echo the centre")
        ok = False
    if must.sum() == 0 and not np.isinf(radius):
        ctx.probes.hit("empty-sphere")
    return ok


def _do_query(ctx, o, c, radius, valid, opkind):
    was_built = _tree_state(o) == "built"
    _note_state(ctx, o, "query")
    oc = _outcome(lambda: o.g.get_localgrid(c, radius))
    o.queries += 1
    if not valid:
        # invalid call: it may raise; whatever it does, later answers must still be right
        o.failed_last = oc[0] == "raise"
        ctx.log.add(ctx.step, opkind, "invalid", oc[0], type(oc[1]).__name__ if oc[0] == "raise" else "")
        ctx.probes.hit("invalid-query")
        return None
    if oc[0] == "raise":
        exc = oc[1]
        pts, _ = _model(o)
        D = _dist(pts, c)
        what = "empty-sphere" if (not np.isinf(radius) and not (D <= radius + 1e-9).any()) else "query"
        ctx.violate("raise", opkind, f"{o.kind}:{what}:{type(exc).__name__}", f"{o.kind}.get_localgrid({np.asarray(c).tolist()}, {radius}) raised {exc!r} ({what}; tree={_tree_state(o)})")
        o.failed_last = True
        return None
    o.failed_last = False
    lg = oc[1]
    good = _check_local(ctx, opkind, o, lg, c, radius)
    if np.isfinite(radius):
        if o.reassigned and was_built:
            ctx.nontrivial = True
            ctx.probes.hit("finite-query-after-reassignment-with-built-tree")
        if o.kind not in ("grid1", "grid2", "grid3"):
            ctx.nontrivial = True
    # local grids handed out earlier belong to the caller: a later query must not change them
    prev = getattr(o, "held", None)
    if prev is not None:
        plg, pp, pw, pi = prev
        if plg is not lg and not (np.array_equal(np.asarray(plg.points), pp) and np.array_equal(np.asarray(plg.weights), pw) and np.array_equal(np.asarray(plg.indices), pi)):
            ctx.violate("earlier-result-changed", opkind, o.kind, f"{o.kind}: a local grid returned by an earlier query changed after a later query / reassignment")
        elif plg is lg and o.last_query is not None:
            ctx.probes.hit("same-localgrid-object-returned-twice")
    if getattr(lg, "indices", None) is not None:
        o.held = (lg, np.array(lg.points), np.array(lg.weights), np.array(lg.indices))
    o.last_query = (c, radius)
    ctx.log.add(ctx.step, opkind, o.kind, "ok" if good else "bad", hash_array(np.asarray(lg.indices)) if getattr(lg, "indices", None) is not None else "-")
    return lg


# ---- operations ----------------------------------------------------------------------------------------


def _op_new(ctx, op):
    _, kind, p = op
    oc = _outcome(lambda: _build(kind, p))
    if oc[0] == "raise":
        ctx.violate("raise", "new", f"{kind}:{type(oc[1]).__name__}", f"constructing {kind} {p} raised {oc[1]!r}")
        return
    g, meta = oc[1]
    if len(ctx.objs) >= ctx.spec["cfg"].get("max_live", 4):
        ctx.objs.pop(0)
    ctx.objs.append(Live(kind, g, meta))
    ctx.log.add(ctx.step, "new", kind, hash_array(np.asarray(g.points)), hash_array(np.asarray(g.weights)))


def _op_query(ctx, op):
    _, h, ckind, rkind, seed = op
    o = ctx.pick(h, QUERYABLE)
    if o is None:
        ctx.log.add(ctx.step, "query", "skip")
        return
    c, cvalid = _center_for(o, ckind, seed)
    radius, rvalid = _radius_for(o, rkind, c, seed, cvalid)
    _do_query(ctx, o, c, radius, cvalid and rvalid, "query")


def _op_requery(ctx, op):
    o = ctx.pick(op[1], QUERYABLE)
    if o is None or o.last_query is None:
        ctx.log.add(ctx.step, "requery", "skip")
        return
    c, radius = o.last_query
    if np.asarray(c).shape != np.asarray(o.g.points).shape[1:]:
        ctx.log.add(ctx.step, "requery", "skip")
        return
    _do_query(ctx, o, c, radius, True, "requery")


def _op_nudge(ctx, op):
    """A series of queries whose centres move by a finite-difference step (a displaced nucleus, a scan): the first sphere
    stops just short of a parent point, the second - same radius, centre moved towards that point by a step of relative
    size 1e-6 ... 1e-4 - contains it.  Every answer is for the centre and radius that were asked."""
    _, h, seed, rel = op
    o = ctx.pick(h, QUERYABLE)
    if o is None:
        ctx.log.add(ctx.step, "nudge", "skip")
        return
    pts, _ = _model(o)
    if len(pts) < 2:
        ctx.log.add(ctx.step, "nudge", "skip")
        return
    c1, ok = _center_for(o, "random", seed)
    c1 = np.asarray(c1, dtype=float)
    D = _dist(pts, c1)
    order = np.argsort(D)
    k = order[np.random.RandomState(seed % (2**32)).randint(1, len(order))]
    d = float(D[k])
    if not np.isfinite(d) or d <= 0:
        ctx.log.add(ctx.step, "nudge", "skip")
        return
    step = rel * (1.0 + float(np.max(np.abs(c1)))) if rel > 0 else 0.0
    r = d - 0.5 * step if step else d * 0.999
    if r <= 0:
        ctx.log.add(ctx.step, "nudge", "skip")
        return
    u = (pts[k] - c1) / d
    _do_query(ctx, o, c1 if c1.ndim else float(c1), r, True, "nudge")
    c2 = c1 + step * u
    _do_query(ctx, o, c2 if c2.ndim else float(c2), r, True, "nudge")
    # ... and a concentric, smaller sphere right after (the legitimate case of that kind of shortcut)
    _do_query(ctx, o, c2 if c2.ndim else float(c2), 0.5 * r, True, "nudge")
    ctx.probes.hit("nudged-centre-series")


def _new_values(old, how, seed, is_points, domain=None):
    r = np.random.RandomState(seed % (2**32))
    old = np.asarray(old)
    if is_points and domain is not None and how in ("translate", "scale", "fresh"):
        # a 1-D grid with a declared domain: stay inside it (leaving it is an invalid state, not a history)
        lo, hi = domain
        if not np.isfinite(hi - lo):
            # half-infinite domain (UniformInteger: [0, inf)): stay on the finite side
            lo = lo if np.isfinite(lo) else -10.0
            if how == "fresh":
                return r.uniform(lo, lo + 10.0, size=old.shape)
            if how == "scale":
                return lo + (old - lo) * r.choice([0.5, 2.0, 0.25])
            return old + r.uniform(0.25, 2.0)
        if how == "fresh":
            return r.uniform(lo, hi, size=old.shape)
        if how == "scale":
            mid = 0.5 * (lo + hi)
            return mid + (old - mid) * r.choice([0.5, -1.0, 0.25])
        return np.clip(old + r.uniform(0.05, 0.4) * (hi - lo), lo, hi)
    if how == "translate":
        return old + (r.uniform(1.0, 3.0) if is_points else 0.25)
    if how == "scale":
        return old * r.choice([0.5, 2.0, -1.0] if is_points else [0.5, 2.0, 3.0])
    if how == "permute":
        return old[r.permutation(len(old))].copy()
    if how == "fresh":
        return r.uniform(-2.0, 2.0, size=old.shape) if is_points else r.uniform(0.1, 1.0, size=old.shape)
    if how == "same":
        return old.copy()
    if how == "badshape":
        return np.zeros((len(old) + 1,) + old.shape[1:])
    raise ValueError(how)


def _op_set(ctx, op):
    name, h, how, seed = op[:4]
    style = op[4] if len(op) > 4 else "new"
    is_points = name == "set_points"
    o = ctx.pick(h, QUERYABLE + ("periodic",))
    if o is None:
        ctx.log.add(ctx.step, name, "skip")
        return
    _note_state(ctx, o, name)
    before_p, before_w = _model(o)
    before_p, before_w = before_p.copy(), before_w.copy()
    val = _new_values(before_p if is_points else before_w, how, seed, is_points, o.meta.get("domain"))
    attr = "points" if is_points else "weights"

    if style != "new" and how != "badshape":
        # the in-place forms touch the array the grid holds: only when no other live object (a slice selection is a view,
        # a whole-grid local grid may be one) shares that memory - editing shared memory is the caller's own doing
        cur0 = getattr(o.g, attr, None)
        ok = isinstance(cur0, np.ndarray) and cur0.flags.writeable and cur0.shape == np.shape(val) and not _shared_elsewhere(ctx, o, cur0, attr)
        if ok and np.can_cast(np.asarray(val).dtype, cur0.dtype, casting="same_kind"):
            ctx.probes.hit("reassignment-style:" + style)
        else:
            style = "new"

    def assign():
        if style == "augmented":
            tmp = getattr(o.g, attr)
            tmp += np.asarray(val) - tmp  # in place ...
            setattr(o.g, attr, tmp)  # ... then the setter, which is what `g.attr += delta` does
        elif style == "same_object":
            tmp = getattr(o.g, attr)
            tmp[...] = val
            setattr(o.g, attr, tmp)
        else:
            setattr(o.g, attr, val)

    oc = _outcome(assign)
    if style != "new" and oc[0] == "ok":
        val = np.array(getattr(o.g, attr))  # (the augmented form may differ from `val` by a rounding error)
    after_p, after_w = _model(o)
    if how == "badshape" or oc[0] == "raise":
        # a rejected assignment (wrong shape, or a class without a setter) must change nothing
        if oc[0] == "raise":
            if not (np.array_equal(after_p, before_p) and np.array_equal(after_w, before_w)):
                ctx.violate("failed-set-changed-grid", name, o.kind, f"{o.kind}.{attr} = ... raised {oc[1]!r} but the grid changed")
            o.failed_last = True
            ctx.probes.hit("rejected-assignment" + ("" if how == "badshape" else ":no-setter"))
            ctx.log.add(ctx.step, name, o.kind, how, "raise", type(oc[1]).__name__)
            return
        ctx.log.add(ctx.step, name, o.kind, how, "accepted-badshape")
        return
    # accepted: the public attribute must now read back the assigned values (that is the model)
    cur = after_p if is_points else after_w
    if not np.array_equal(cur, val):
        if o.kind in ("atom",) and is_points:
            ctx.log.add(ctx.step, name, o.kind, how, "not-assignable")
            return
        ctx.violate("set-not-visible", name, o.kind, f"{o.kind}.{attr} was assigned but does not read back the assigned values")
        return
    if how != "same":
        o.reassigned += 1
    o.failed_last = False
    ctx.probes.hit(f"reassigned:{attr}:tree-{_tree_state(o)}")
    ctx.log.add(ctx.step, name, o.kind, how, "ok", hash_array(cur))


def _shared_elsewhere(ctx, o, arr, attr):
    others = []
    for o2 in ctx.objs:
        for a in ("_points", "_weights", "points", "weights", "indices"):
            if o2 is o and a.lstrip("_") == attr:
                continue
            try:
                others.append(getattr(o2.g, a, None))
            except Exception:  # noqa: BLE001
                pass
        if o2.held is not None:
            others += [getattr(o2.held[0], a, None) for a in ("_points", "_weights", "points", "weights")]
    return any(isinstance(x, np.ndarray) and np.may_share_memory(arr, x) for x in others)


def _make_index(ikind, n, seed):
    r = np.random.RandomState(seed % (2**32))
    i = int(r.randint(n))
    if ikind == "int":
        return i, np.array([i])
    if ikind == "negint":
        return -(i + 1), np.array([n - i - 1])
    if ikind == "npint":
        return np.int64(i), np.array([i])
    if ikind == "npint32":
        return np.int32(i), np.array([i])
    if ikind == "slice":
        j = int(r.randint(i, n)) + 1
        return slice(i, j), np.arange(i, j)
    if ikind == "slice_step":
        st = int(r.randint(1, 4))
        return slice(i, n, st), np.arange(i, n, st)
    if ikind == "intarray":
        k = int(r.randint(1, min(n, 8) + 1))
        a = r.randint(0, n, size=k)
        return a, a
    if ikind == "list":
        k = int(r.randint(1, min(n, 5) + 1))
        a = [int(x) for x in r.randint(0, n, size=k)]
        return a, np.array(a)
    if ikind == "slice_rev":
        st = -int(r.randint(1, 3))
        return slice(None, None, st), np.arange(n)[::st]
    if ikind == "slice_neg":
        lo = -int(r.randint(1, n + 1))
        return slice(lo, None), np.arange(n)[lo:]
    if ikind == "uintarray":
        k = int(r.randint(1, min(n, 6) + 1))
        a = r.randint(0, min(n, 255), size=k).astype(np.uint8)
        return a, a.astype(int)
    if ikind == "negarray":
        k = int(r.randint(1, min(n, 6) + 1))
        a = -1 - r.randint(0, n, size=k)
        return a, n + a
    if ikind == "boollist":
        m = r.rand(n) < 0.5
        m[i] = True
        return [bool(v) for v in m], np.nonzero(m)[0]
    if ikind == "lastint":
        return (-1 if seed % 2 else n - 1), np.array([n - 1])
    if ikind == "mask":
        m = r.rand(n) < 0.5
        m[i] = True
        return m, np.nonzero(m)[0]
    raise ValueError(ikind)


def _op_select(ctx, op):
    _, h, ikind, seed = op
    o = ctx.pick(h, SELECTABLE)
    if o is None:
        ctx.log.add(ctx.step, "select", "skip")
        return
    pts, wts = _model(o)
    n = len(pts)
    if n == 0:
        ctx.log.add(ctx.step, "select", "skip-empty")
        return
    index, expect = _make_index(ikind, n, seed)
    _note_state(ctx, o, "select")
    oc = _outcome(lambda: o.g[index])
    sig = f"{o.kind}:{ikind}"
    if oc[0] == "raise":
        ctx.violate("select-raise", "select", f"{sig}:{type(oc[1]).__name__}", f"{type(o.g).__name__}[{ikind} index {index!r:.60}] raised {oc[1]!r}")
        return
    s = oc[1]
    from grid.basegrid import OneDGrid

    same_family = type(s) is type(o.g) or (isinstance(o.g, OneDGrid) and type(s) is OneDGrid)
    if not same_family:
        ctx.violate("select-type", "select", sig, f"selection of a {type(o.g).__name__} returned a {type(s).__name__}")
        return
    sp, sw = np.asarray(s.points), np.asarray(s.weights)
    if sp.shape != pts[expect].shape or not np.array_equal(sp, pts[expect]) or not np.array_equal(sw, wts[expect]):
        ctx.violate("select-content", "select", sig, f"{type(o.g).__name__}[{ikind}] does not hold exactly the selected points/weights (got shape {sp.shape}, want {pts[expect].shape})")
    if "domain" in o.meta and (s.domain is None or tuple(s.domain) != tuple(o.meta["domain"])):
        ctx.violate("select-domain", "select", sig, f"selection changed the domain {o.meta['domain']} -> {s.domain}")
    if "realvecs" in o.meta:
        rv = o.meta["realvecs"]
        srv = np.asarray(s.realvecs)
        if (rv is None and srv.size != 0) or (rv is not None and not np.array_equal(srv, rv)):
            ctx.violate("select-lattice", "select", sig, "selection changed the lattice vectors")
    if o.reassigned:
        ctx.nontrivial = True
    ctx.probes.hit("select:" + ikind)
    # the selection is a live grid of its own: later histories may query / reassign it
    if len(ctx.objs) < ctx.spec["cfg"].get("max_live", 4) + 2:
        ctx.objs.append(Live(o.kind, s, dict(o.meta)))
    ctx.log.add(ctx.step, "select", sig, hash_array(sp), hash_array(sw))


def _op_local_of(ctx, op):
    """Query, then keep the LocalGrid as a live object (nested queries, reassignment on a local grid)."""
    _, h, rkind, seed = op
    o = ctx.pick(h, QUERYABLE)
    if o is None:
        ctx.log.add(ctx.step, "local_of", "skip")
        return
    c, cvalid = _center_for(o, "random", seed)
    radius, _ = _radius_for(o, rkind, c, seed, cvalid)
    lg = _do_query(ctx, o, c, radius, True, "local_of")
    if lg is not None and len(np.asarray(lg.weights)) > 0:
        o.held = None  # this local grid becomes a live object the caller may reassign: not watched for changes
        ctx.objs.append(Live("local", lg, {}))
        if len(ctx.objs) > ctx.spec["cfg"].get("max_live", 4) + 2:
            ctx.objs.pop(0)
        ctx.probes.hit("nested-local-grid")


OPS = {"new": _op_new, "query": _op_query, "requery": _op_requery, "nudge": _op_nudge, "set_points": _op_set, "set_weights": _op_set, "select": _op_select, "local_of": _op_local_of}


class GridHistoryEngine:
    NAME = "grid-history"
    RUN_TIMEOUT_S = 600  # generous: a run normally takes well under a second, but the machine may be heavily loaded
    LEVEL = "exploration"
    RULE = (
        "one run = seeded sequence of constructions, local-grid queries, points/weights reassignments, rejected calls and "
        "selections on up to 4-6 live grid objects of 11 kinds; non-trivial = a finite-radius query that follows a successful "
        "reassignment on an object whose neighbour tree was already built, or a query on a non-plain Grid subclass, or a selection "
        "after a reassignment; distinct = distinct run digests"
    )
    STATE_MEASURE = "set of (grid kind, tree absent|none|built, #reassignments since construction (capped 3), last call failed?, operation) tuples reached"
    COMPONENTS = {
        "real": ["grid.basegrid.Grid/LocalGrid/OneDGrid", "grid.onedgrid.GaussLegendre", "grid.atomgrid.AtomGrid", "grid.molgrid.MolGrid", "grid.cubic.UniformGrid/Tensor1DGrids",
                 "grid.periodicgrid.PeriodicGrid (selection)", "scipy.spatial.cKDTree"],
        "stub": ["nothing is stubbed: the simulator only chooses the history (operation order, arguments, rejected calls)"],
    }
    ASSUMPTIONS = [
        "model = the (points, weights) read back through the public properties after each accepted assignment",
        "points whose distance differs from the radius by <= 1e-9*max(1,r) are don't-care (k-d tree vs brute force rounding), except exact zero distance",
        "in-place mutation of the points array by the caller without a following assignment through the setter is not a reassignment and is not generated (the augmented forms g.points += d and p = g.points; p[...] = v; g.points = p are)",
        "empty selections are not generated (the property does not say what they return)",
        "a clean batch is sampling evidence, not proof",
    ]

    def submodes(self, tier):
        if tier == "quick":
            return [("mixed", 9000), ("single-object", 4000)]
        return [("mixed", 1200000), ("single-object", 600000)]

    def determinism_sample(self, tier):
        return 64 if tier == "quick" else 512

    def minimise_budget(self, tier):
        return (600, 90.0)

    def max_reported_classes(self):
        return 4

    def generate(self, seed, submode):
        rng = random.Random(seed)
        if submode == "single-object":
            kinds = [rng.choice(KINDS)]
            max_live = 1
        else:
            kinds = [k for k in KINDS if rng.random() < 0.5] or [rng.choice(KINDS)]
            max_live = rng.randint(2, 4)
        ops_w = [[k, w * rng.choice([0.5, 1, 1, 2])] for k, w in BASE_OPS if k in ("new", "query", "set_points") or rng.random() < 0.8]
        cfg = {"kinds": kinds, "ops": ops_w, "max_live": max_live}
        n = rng.randint(3, 30)
        ops = [_gen_new(rng, cfg)] + [_gen_op(rng, cfg) for _ in range(n)]
        return {"engine": self.NAME, "seed": seed, "submode": submode, "cfg": {"max_live": max_live, "kinds": kinds}, "ops": ops}

    def execute(self, spec, known_keys):
        ctx = Ctx(spec, known_keys)
        procstate.restore()
        np.seterr(all="ignore")
        try:
            for op in spec["ops"]:
                ctx.step += 1
                fn = OPS.get(op[0])
                if fn is not None:
                    fn(ctx, op)
            # final observation: every live object answers an all-points and a mid-radius query correctly
            ctx.step = 10**6
            for o in list(ctx.objs):
                if o.kind in QUERYABLE and len(np.asarray(o.g.weights)):
                    c, _ = _center_for(o, "centroid", 1)
                    r, _ = _radius_for(o, "q50", c, 1, True)
                    _do_query(ctx, o, c, r, True, "final")
        except Exception as exc:  # noqa: BLE001
            # the harness's own reads of public attributes (points, weights, indices ...) are library calls too
            if not library_raised(exc):
                raise
            ctx.violate("raise", "attribute-read", type(exc).__name__, f"reading a public attribute of a grid raised {exc!r} (step {ctx.step}); the run ends here")
        procstate.restore()
        return {
            "digest": ctx.log.digest(), "violations": ctx.violations, "known_hits": ctx.known_hits, "faults": dict(ctx.faults),
            "probes": dict(ctx.probes), "states": sorted(ctx.states), "nontrivial": bool(ctx.nontrivial), "steps": len(spec["ops"]), "n_ops": len(spec["ops"]),
        }

    def list_paths(self, spec):
        return [("ops",)]

    def simplify(self, spec):
        for i, op in enumerate(spec["ops"]):
            for new in _simpler(op):
                s2 = copy.deepcopy(spec)
                s2["ops"][i] = new
                yield s2


def _simpler(op):
    k = op[0]
    if k == "new":
        p = op[2]
        if "n" in p and p["n"] > 3:
            q = dict(p)
            q["n"] = 3
            yield ["new", op[1], q]
            q = dict(p)
            q["n"] = max(3, p["n"] // 2)
            yield ["new", op[1], q]
        if p.get("dup"):
            q = dict(p)
            q["dup"] = False
            yield ["new", op[1], q]
    if k in ("query", "requery", "nudge", "set_points", "set_weights", "select", "local_of") and op[1] != 0:
        yield [k, 0] + list(op[2:])
    if k == "query":
        if op[2] != "centroid":
            yield ["query", op[1], "centroid", op[3], op[4]]
        if op[3] not in ("q50", "inf"):
            yield ["query", op[1], op[2], "q50", op[4]]
    if k in ("set_points", "set_weights") and op[2] not in ("translate", "badshape"):
        yield [k, op[1], "translate"] + list(op[3:])
    if k in ("set_points", "set_weights") and len(op) > 4 and op[4] != "new":
        yield list(op[:4]) + ["new"]
    if k == "select" and op[2] not in ("int",):
        yield ["select", op[1], "int", op[3]]


def make_engine():
    procstate.snapshot()
    return GridHistoryEngine()
