"""Manufactured linear ODE problems with known exact solutions (workload of the rng-seam engine, C15)."""

from __future__ import annotations

import numpy as np


# ---- exact solutions ---------------------------------------------------------------------------------


def sol_deriv(terms, n, x):
    """n-th derivative of y(x) = sum of terms at x (array)."""
    x = np.asarray(x, dtype=float)
    out = np.zeros_like(x)
    for t in terms:
        if t[0] == "exp":
            _, a, k = t
            out = out + a * k**n * np.exp(k * x)
        elif t[0] == "sin":
            _, a, w, ph = t
            out = out + a * w**n * np.sin(w * x + ph + n * np.pi / 2)
        elif t[0] == "poly":
            c = np.array(t[1], dtype=float)
            p = np.polynomial.Polynomial(c)
            for _ in range(n):
                p = p.deriv()
            out = out + p(x)
        else:
            raise ValueError(t)
    return out


def coeff_eval(c, x):
    x = np.asarray(x, dtype=float)
    if c[0] == "scaled":  # ["scaled", factor, inner-spec]: the whole equation multiplied by a constant
        return c[1] * coeff_eval(c[2], x)
    if c[0] == "const":
        return np.full_like(x, c[1])
    if c[0] == "lin":
        return c[1] + c[2] * x
    if c[0] == "sin":
        return c[1] + c[2] * np.sin(c[3] * x)
    raise ValueError(c)


def rhs(problem, x):
    """f(x) = sum_k a_k(x) y^(k)(x)."""
    x = np.asarray(x, dtype=float)
    out = np.zeros_like(x)
    for k, c in enumerate(problem["coeffs"]):
        out = out + coeff_eval(c, x) * sol_deriv(problem["terms"], k, x)
    return out


def make_callables(problem, const_as_numbers=True):
    """(fx, coeffs list) to hand to the library: fresh arrays on every call (benign callbacks)."""
    fx = lambda x: np.array(rhs(problem, x), dtype=float)  # noqa: E731
    coeffs = []
    flav = int(problem.get("cflav", 0))  # how the caller writes constants: floats; whole numbers as ints; NumPy scalars; one ndarray
    for c in problem["coeffs"]:
        v = None
        if c[0] == "const" and const_as_numbers:
            v = float(c[1])
        elif c[0] == "scaled" and c[2][0] == "const" and const_as_numbers:
            v = float(c[1] * c[2][1])
        if v is None:
            coeffs.append(lambda x, c=c: np.array(coeff_eval(c, x), dtype=float))
        elif flav == 1 and v == int(v) and abs(v) < 2**53:
            coeffs.append(int(v))
        elif flav == 2:
            coeffs.append(np.float64(v))
        else:
            coeffs.append(v)
    if flav == 3 and all(not callable(c) for c in coeffs):
        coeffs = np.array(coeffs, dtype=float)
    return fx, coeffs


# ---- transforms --------------------------------------------------------------------------------------


def build_transform(tspec):
    from grid import rtransform as rt

    if tspec is None:
        return None
    k = tspec[0]
    if k == "identity":
        return rt.IdentityRTransform()
    if k == "linfinite":
        return rt.LinearFiniteRTransform(tspec[1], tspec[2])
    if k == "becke":
        return rt.BeckeRTransform(tspec[1], tspec[2])
    if k == "knowles":
        return rt.KnowlesRTransform(tspec[1], tspec[2], tspec[3])
    if k == "handy":
        return rt.HandyRTransform(tspec[1], tspec[2], tspec[3])
    if k == "handymod":
        return rt.HandyModRTransform(tspec[1], tspec[2], tspec[3])
    if k == "multiexp":
        return rt.MultiExpRTransform(tspec[1], tspec[2])
    if k == "exp":
        return rt.ExpRTransform(tspec[1], tspec[2], b=tspec[3])
    if k == "power":
        return rt.PowerRTransform(tspec[1], tspec[2], b=tspec[3])
    if k == "lininf":
        return rt.LinearInfiniteRTransform(tspec[1], tspec[2], b=tspec[3])
    if k == "hyperbolic":
        return rt.HyperbolicRTransform(tspec[1], tspec[2])
    if k == "inv":
        return rt.InverseRTransform(build_transform(tspec[1]))
    raise ValueError(tspec)


def transform_ctor(tspec):
    """(class, args, kwargs) of the outermost transform object; inner objects are built here, ahead of time."""
    from grid import rtransform as rt

    k = tspec[0]
    if k == "inv":
        return rt.InverseRTransform, (build_transform(tspec[1]),), {}
    table = {
        "identity": (rt.IdentityRTransform, (), {}), "linfinite": (rt.LinearFiniteRTransform, tuple(tspec[1:3]), {}),
        "becke": (rt.BeckeRTransform, tuple(tspec[1:3]), {}), "knowles": (rt.KnowlesRTransform, tuple(tspec[1:4]), {}),
        "handy": (rt.HandyRTransform, tuple(tspec[1:4]), {}), "handymod": (rt.HandyModRTransform, tuple(tspec[1:4]), {}),
        "multiexp": (rt.MultiExpRTransform, tuple(tspec[1:3]), {}),
    }
    if k in table:
        return table[k]
    if k in ("exp", "power", "lininf"):
        cls = {"exp": rt.ExpRTransform, "power": rt.PowerRTransform, "lininf": rt.LinearInfiniteRTransform}[k]
        return cls, (tspec[1], tspec[2]), {"b": tspec[3]}
    if k == "hyperbolic":
        return rt.HyperbolicRTransform, (tspec[1], tspec[2]), {}
    raise ValueError(tspec)


def x_interval_for(tspec, rng):
    """An interval of the original variable inside the transform's domain where the map is tame."""
    if tspec is None or tspec[0] == "identity":
        a = rng.uniform(0.0, 0.5)
        return a, a + rng.uniform(0.8, 2.0)
    k = tspec[0]
    if k in ("linfinite", "becke", "knowles", "handy", "handymod", "multiexp"):
        # upper end <= 0.45: beyond that the stretching maps ((1+x)/(1-x))^m make the transformed problem stiff
        a = rng.uniform(-0.85, -0.4)
        return a, a + rng.uniform(0.5, 0.85)
    if k in ("exp", "power", "lininf", "hyperbolic"):
        a = rng.uniform(0.2, 0.8)
        return a, a + rng.uniform(0.8, 2.2)
    if k == "inv":
        a = rng.uniform(0.15, 0.5)
        return a, a + rng.uniform(0.6, 1.6)
    raise ValueError(tspec)


def gen_transform(rng):
    u = rng.random()
    # HyperbolicRTransform is left out on purpose: its validity check depends on the *length* of the array it is
    # given (b*(N-1) < 1), so it stops being admissible as soon as the BVP solver refines the mesh.
    base = rng.choice(["linfinite", "becke", "knowles", "handy", "handymod", "exp", "power", "lininf", "identity"])
    if base == "identity":
        t = ["identity"]
    elif base == "linfinite":
        t = ["linfinite", 0.0, round(rng.uniform(1.0, 5.0), 2)]
    elif base == "becke":
        t = ["becke", rng.choice([0.0, 0.1]), round(rng.uniform(0.5, 2.0), 2)]
    elif base == "knowles":
        t = ["knowles", rng.choice([0.0, 0.1]), round(rng.uniform(0.5, 2.0), 2), rng.choice([1, 2, 3])]
    elif base == "handy":
        t = ["handy", rng.choice([0.0, 0.1]), round(rng.uniform(0.5, 2.0), 2), rng.choice([1, 2, 3])]
    elif base == "handymod":
        t = ["handymod", rng.choice([0.0, 0.1]), round(rng.uniform(5.0, 20.0), 1), rng.choice([1, 2, 3, 4])]
    elif base == "exp":
        t = ["exp", 0.1, rng.choice([5.0, 10.0]), rng.choice([None, 5.0])]
    elif base == "power":
        t = ["power", 0.1, rng.choice([5.0, 10.0]), rng.choice([None, 5.0])]
    elif base == "lininf":
        t = ["lininf", 0.1, rng.choice([5.0, 10.0]), rng.choice([None, 5.0])]
    else:
        t = ["hyperbolic", round(rng.uniform(0.5, 2.0), 2), 0.01]
    if u < 0.25 and base in ("becke", "knowles", "handy", "handymod"):
        return ["inv", t]
    return t


# ---- problems ----------------------------------------------------------------------------------------


GROUPS = {"linfinite": 1, "becke": 1, "knowles": 1, "handy": 1, "handymod": 1, "multiexp": 1, "exp": 2, "power": 2, "lininf": 2, "hyperbolic": 2, "inv": 3, "identity": 0}


def gen_alternates(rng, tspec, k):
    """Other admissible maps for the same x-interval: same domain group, other family and/or parameters."""
    out = []
    if tspec is None:
        return out
    g = GROUPS[tspec[0]]
    for _ in range(60):
        if len(out) >= k:
            break
        t = gen_transform(rng)
        if t == tspec or t in out:
            continue
        # (IdentityRTransform declares the domain (0, inf): usable only where the x-interval is positive)
        if GROUPS[t[0]] == g or (t[0] == "identity" and g in (2, 3)):
            out.append(t)
    return out


def gen_problem(rng, with_transform):
    order = rng.choices([1, 2, 3], weights=[1, 3, 2])[0]
    tspec = gen_transform(rng) if with_transform else None
    a, b = x_interval_for(tspec, rng)
    terms = []
    for _ in range(rng.randint(1, 3)):
        kind = rng.choice(["exp", "sin", "poly"])
        if kind == "exp":
            terms.append(["exp", round(rng.uniform(-1.5, 1.5), 3), round(rng.uniform(-1.2, 1.2), 3)])
        elif kind == "sin":
            terms.append(["sin", round(rng.uniform(-1.5, 1.5), 3), round(rng.uniform(0.5, 3.0), 3), round(rng.uniform(0, 6.28), 3)])
        else:
            terms.append(["poly", [round(rng.uniform(-1, 1), 3) for _ in range(rng.randint(1, 4))]])
    coeffs = []
    for k in range(order):
        kind = rng.choice(["const", "const", "lin", "sin"])
        if order == 2 and k == 0:
            # coercive sign pattern: a0 <= 0 with a2 > 0 keeps every boundary set below uniquely solvable
            coeffs.append(["const", -round(rng.uniform(0.0, 2.0), 3)])
        elif kind == "const":
            # (a vanishing lower-order coefficient is a legitimate equation too)
            coeffs.append(["const", 0.0 if rng.random() < 0.2 else round(rng.uniform(-1.5, 1.5), 3)])
        elif kind == "lin":
            coeffs.append(["lin", round(rng.uniform(-1, 1), 3), round(rng.uniform(-0.5, 0.5), 3)])
        else:
            coeffs.append(["sin", round(rng.uniform(-1, 1), 3), round(rng.uniform(-0.5, 0.5), 3), round(rng.uniform(0.5, 2.0), 3)])
    coeffs.append(["const", 1.0] if rng.random() < 0.6 else ["sin", round(rng.uniform(0.9, 1.5), 3), 0.25, round(rng.uniform(0.5, 2.0), 3)])
    if order == 1:
        bc = [[rng.choice([0, 1]), 0]]
    elif order == 2:
        bc = rng.choice([[[0, 0], [1, 0]], [[0, 0], [1, 1]], [[0, 1], [1, 0]]])
    else:
        bc = rng.choice([[[0, 0], [0, 1], [1, 0]], [[0, 0], [1, 0], [1, 1]], [[0, 0], [0, 1], [0, 2]], [[0, 0], [1, 0], [1, 2]], [[0, 0], [0, 2], [1, 0]],
                         [[0, 1], [1, 0], [1, 1]]])
    # the same equation multiplied through by a constant (1e-10 ... 1e8) has the same solution: coefficients and, through
    # them, the right-hand side are scaled together (scale invariance of a linear ODE)
    if rng.random() < 0.3:
        fac = rng.choice([1e-10, 1e-6, 1e-3, 1e4, 1e8])
        coeffs = [["scaled", fac, c] for c in coeffs]
    # the solution itself may be tiny or large (a density tail of 1e-9, a charge of 1e6): relative accuracy is what the
    # solver tolerances promise, so every term is multiplied by `amp` and errors are measured relative to it
    amp = 1.0 if rng.random() < 0.75 else rng.choice([1e-9, 1e-6, 1e5, 1e5, 1e7, 1e9])
    if amp != 1.0 and order == 1 and rng.random() < 0.7:
        # a strictly positive solution (sum of positive exponentials): purely relative tolerances are well-posed for it
        terms = [["exp", round(rng.uniform(0.5, 1.5), 3), round(rng.uniform(-1.2, 1.2), 3)] for _ in range(rng.randint(1, 2))]
    if amp != 1.0:
        for t in terms:
            if t[0] == "poly":
                t[1] = [c * amp for c in t[1]]
            else:
                t[1] = t[1] * amp
    bc = [list(c) for c in bc]
    rng.shuffle(bc)  # the order in which the caller lists the conditions is arbitrary (upper end first, interleaved, ...)
    alts = gen_alternates(rng, tspec, rng.choice([0, 1, 2, 2])) if tspec is not None and tspec[0] != "identity" else []
    cflav = rng.choice([0, 0, 1, 2, 3])
    if cflav == 1:
        # whole-number constants (y'' - 2 y' + 3 y = f), which the caller then writes as Python ints
        for k, c in enumerate(coeffs[:-1]):
            if c[0] == "const" and c[1] != 0 and rng.random() < 0.7:
                # (second order keeps a0 <= 0: the coercive sign pattern that makes every boundary set uniquely solvable)
                c[1] = float(rng.choice([-3, -2, -1] if (order == 2 and k == 0) else [-3, -2, -1, 1, 2, 3]))
    return {"order": order, "a": round(a, 4), "b": round(b, 4), "terms": terms, "coeffs": coeffs, "bc": bc, "tspec": tspec, "alts": alts, "amp": amp, "cflav": cflav,
            "n": rng.randint(8, 30), "tol": rng.choice([1e-4, 1e-6, 1e-6])}


def reference_error(problem, tol):
    """Independent reference: my own first-order system straight into scipy.solve_bvp (zero guess).

    Returns max error of y and its derivatives at sample points, or None if the reference fails.
    """
    from scipy.integrate import solve_bvp

    K = problem["order"]
    a, b = problem["a"], problem["b"]
    x = np.linspace(a, b, problem["n"])

    def fun(t, y):
        top = rhs(problem, t)
        for k in range(K):
            top = top - coeff_eval(problem["coeffs"][k], t) * y[k]
        return np.vstack([y[1:], top / coeff_eval(problem["coeffs"][K], t)])

    ends = (a, b)

    def bc(ya, yb):
        yy = (ya, yb)
        return np.array([yy[i][j] - sol_deriv(problem["terms"], j, np.array([ends[i]]))[0] for i, j in problem["bc"]])

    def bc_jac(ya, yb):
        # exact (a finite-difference estimate cancels to zero when the boundary data dwarf the guess - the reference must
        # not share that weakness, or problems with large data are never admitted)
        ja, jb = np.zeros((K, K)), np.zeros((K, K))
        for row, (i, j) in enumerate(problem["bc"]):
            (ja, jb)[i][row, j] = 1.0
        return ja, jb

    def fun_jac(t, y):
        J = np.zeros((K, K, t.size))
        for k in range(K - 1):
            J[k, k + 1, :] = 1.0
        lead = coeff_eval(problem["coeffs"][K], t)
        for k in range(K):
            J[K - 1, k, :] = -coeff_eval(problem["coeffs"][k], t) / lead
        return J

    try:
        res = solve_bvp(fun, bc, x, np.zeros((K, x.size)), tol=tol, max_nodes=5000, fun_jac=fun_jac, bc_jac=bc_jac)
    except Exception:  # noqa: BLE001
        return None
    if res.status != 0:
        return None
    xe = np.linspace(a, b, 23)
    err = 0.0
    ys = res.sol(xe)
    for k in range(K):
        err = max(err, float(np.max(np.abs(ys[k] - sol_deriv(problem["terms"], k, xe)))))
    return err
