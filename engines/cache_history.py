"""C19 - caches and remembered parameters never change what a later call returns.

Engine `cache-history`: seeded search over call histories (sequential and scheduled caller threads)
against a fault-injecting data store.  See DESIGN.md section 3 (C19).
"""

from __future__ import annotations

import copy
import random
import threading
import weakref

import numpy as np

from simkit import procstate
from simkit.addr import build_at_released_address
from simkit import sched as simsched
from simkit.core import library_raised, Counter, EventLog, Violation, derive_seed, hash_array, hash_obj
from simkit.rngseam import RngSeam
from simkit.store import SimStore, StoreSeam

from . import ch_model as M

PID = "C19"
FAULT_KINDS = ("eio", "enomem", "enoent", "short", "bitflip")
EDIT_HOWS = ("zero", "scale", "add", "nan", "reverse", "flip", "negate", "sort")
TF_CLASSES = ("linear", "exp", "power")
TF_METHODS = ("transform", "inverse", "deriv", "deriv2", "deriv3", "deriv_inverse", "deriv2_inverse", "deriv3_inverse", "grid", "grid", "grid_bad", "transform_zero")
ELEMENTS = ["H", "C", "N", "O", "Cl", 1, 6, 7, 8, 17, "h", " c ", "cl", "He", 2, "Xx", 0, 119]
PRESETS = ["coarse", "medium", "fine", "sg_0", "sg_1", "g1", "g2"]
TRACE_FILES = ("grid/angular.py", "grid/coulomb.py", "grid/atomgrid.py", "grid/molgrid.py", "grid/basegrid.py", "grid/rtransform.py",
               "grid/becke.py", "grid/onedgrid.py", "grid/hirshfeld.py")
HOT_FUNCS = ("_load_precomputed_angular_grid", "load_atomic_gaussian_params", "__init__")


# ================================================================================================
# generation
# ================================================================================================


def _small_degrees(method, rng, k):
    tab = M.tables()[method]
    small = [d for d, s in tab if s <= 200]
    mid = [d for d, s in tab if 200 < s <= 1500]
    out = []
    for _ in range(k):
        u = rng.random()
        if u < 0.8 or not mid:
            d = rng.choice(small)
        else:
            d = rng.choice(mid)
        if rng.random() < 0.3 and d > 1:
            d -= 1  # unsupported request: resolves upward (often to the same key)
        out.append(d)
    return out


def _gen_rspec(rng):
    kind = rng.choice(["gl", "gl", "uni", "zero", "tiny"])
    n = rng.randint(1, 8) if rng.random() < 0.8 else rng.randint(9, 14)
    if kind == "gl":
        return ["gl", n, rng.choice([0.0, 1e-3, 0.1]), rng.choice([0.5, 1.0, 2.5])]
    if kind == "uni":
        return ["uni", max(n, 2), rng.choice([1e-3, 1e-2]), rng.choice([5.0, 20.0])]
    return [kind, n, rng.choice([1.0, 3.0, 8.0])]


def _gen_center(rng):
    if rng.random() < 0.3:
        return [0.0, 0.0, 0.0]
    return [round(rng.uniform(-3, 3), 3) for _ in range(3)]


def _gen_degspec(rng, cfg, method, n):
    u = rng.random()
    pool = cfg["pool"][method]
    if u < 0.1:
        return ["default"]
    if u < 0.55:
        return ["deg", [rng.choice(pool)]]
    if u < 0.8:
        return ["deg", [rng.choice(pool) for _ in range(n)]]
    tab = dict(M.tables()[method])
    sizes = []
    for _ in range(n if rng.random() < 0.5 else 1):
        r = M.resolve(method, "degree", rng.choice(pool))
        s = r[1]
        if rng.random() < 0.3 and s > 2:
            s -= 1
        sizes.append(s)
    return ["size", sizes]


def _gen_op(rng, cfg):
    kinds = cfg["kinds"]
    kind = rng.choices([k for k, _ in kinds], weights=[w for _, w in kinds])[0]
    method = rng.choice(cfg["methods"])
    pool = cfg["pool"][method]
    if kind == "ang":
        u = rng.random()
        if u < 0.12:
            # key-space confusion seekers: ask for a *degree* equal to some pool key's size, or a
            # *size* equal to some pool key's degree (clamped to the supported range)
            d0, s0 = M.resolve(method, "degree", rng.choice(pool))
            tab = M.tables()[method]
            if rng.random() < 0.5:
                return ["ang", method, "degree", min(s0, tab[-1][0]), rng.random() < 0.8]
            return ["ang", method, "size", max(d0, 1), rng.random() < 0.8]
        if u < 0.16:
            # zero is a legal request (resolves to the smallest grid) - and a falsy one
            return ["ang", method, rng.choice(["degree", "size"]), 0, rng.random() < 0.8]
        if u < 0.75:
            return ["ang", method, "degree", rng.choice(pool), rng.random() < 0.8]
        r = M.resolve(method, "degree", rng.choice(pool))
        s = r[1] - (1 if rng.random() < 0.3 and r[1] > 2 else 0)
        return ["ang", method, "size", s, rng.random() < 0.8]
    if kind == "atom":
        rspec = _gen_rspec(rng)
        n = max(rspec[1], 2) if rspec[0] in ("uni", "gl") else rspec[1]
        return ["atom", rspec, _gen_degspec(rng, cfg, method, n), _gen_center(rng), rng.choice([0, 0, 1, 7, 12345]), method]
    if kind == "pruned":
        rspec = _gen_rspec(rng)
        ns = rng.randint(1, 3)
        r_sectors = sorted(round(rng.uniform(0.1, 3.0), 2) for _ in range(ns))
        use_sizes = rng.random() < 0.3
        secs = []
        for _ in range(ns + 1):
            d = rng.choice(pool)
            secs.append(M.resolve(method, "degree", d)[1] if use_sizes else d)
        return ["pruned", rspec, rng.choice([0.5, 1.0, 2.0]), r_sectors, ["size" if use_sizes else "deg", secs], _gen_center(rng), rng.choice([0, 0, 3]), method]
    if kind == "preset":
        return ["preset", rng.choice([1, 6, 7, 8, 17]), rng.choice(PRESETS), _gen_center(rng), rng.choice([0, 0, 5])]
    if kind == "shell":
        return ["shell", rng.randrange(1000), rng.randrange(1000), rng.random() < 0.6]
    if kind == "mol":
        return ["mol", rng.randrange(1000), rng.choice([1, 2, 2, 3, 3, 4, 5]), rng.random() < 0.5]  # (Becke weights switch to chunked evaluation at 4 atoms)
    if kind == "molctor":
        how = rng.choice(["size", "pruned", "preset"])
        nat = rng.randint(1, 3)
        coords = [[0.0, 0.0, 0.0], [0.0, 0.0, round(rng.uniform(1.2, 2.5), 2)], [round(rng.uniform(1.2, 2.0), 2), 0.3, 0.0]][:nat]
        atnums = [rng.choice([1, 6, 7, 8]) for _ in range(nat)]
        tab_size = M.resolve("lebedev", "degree", rng.choice(cfg["pool"]["lebedev"]))[1]
        # (a sixth of these leave the radial grid to the library: rgrid=None, the per-element default)
        return ["molctor", how, atnums, coords, _gen_rspec(rng) if rng.random() > 0.17 else None, tab_size, rng.choice([0, 37, 5]), rng.random() < 0.5,
                sorted(round(rng.uniform(0.2, 2.0), 2) for _ in range(2)), [rng.choice(cfg["pool"]["lebedev"]) for _ in range(3)]]
    if kind == "moluse":
        return ["moluse", rng.randrange(1000), rng.choice(["integrate", "interp", "interp", "atomic", "peek"]), rng.randrange(16)]
    if kind == "use":
        # 4th element: which optional arguments / which function the call gets (0 = the defaults) - the same method is
        # called on the same object with different options in either order
        return ["use", rng.randrange(1000), rng.choice(["integrate", "angint", "sph", "spline", "interp", "basis", "savg", "sph", "interp", "peek", "peek"]),
                rng.choice([0, rng.randrange(16), rng.randrange(16)])]
    if kind == "edit":
        return ["edit", rng.randrange(1000), rng.choice(["points", "weights", "points", "weights", "indices", "degrees", "aux", "rgrid"]), rng.choice(EDIT_HOWS)]
    if kind == "reobserve":
        return ["reobserve", rng.randrange(1000)]
    if kind == "drop":
        return ["drop", rng.randrange(1000)]
    if kind == "restart":
        return ["restart", rng.choice(["all", "all", "angular", "coulomb"])]
    if kind == "tf_new":
        cls = rng.choice(TF_CLASSES)
        rmin = rng.choice([1e-3, 0.01, 0.5])
        rmax = rng.choice([5.0, 20.0, 100.0])
        b = None if rng.random() < 0.7 else rng.choice([3.0, 10.0, 49.0])
        return ["tf_new", cls, rmin, rmax, b]
    if kind == "tf_wrap":
        return ["tf_wrap", rng.randrange(1000)]
    if kind == "tf_wcall":
        n = rng.randint(1, 9)
        arr = ["range", n + 1] if rng.random() < 0.4 else ["vals", [round(rng.uniform(0.1, 12.0), 3) for _ in range(n)]]
        return ["tf_wcall", rng.randrange(1000), rng.choice(["transform", "transform", "inverse", "deriv", "deriv2"]), arr]
    if kind == "tf_call":
        n = rng.randint(1, 12) if rng.random() < 0.85 else rng.randint(13, 120)
        arr = ["range", n] if rng.random() < 0.5 else ["vals", [round(rng.uniform(0.0, 30.0), 3) for _ in range(n)]]
        # 5th element - how the caller holds its arrays: 0 a fresh array per call; 1 ONE work buffer per caller, refilled in
        # place and handed over again (same object, new contents); 2 the same, and the caller then scales the returned array
        return ["tf_call", rng.randrange(1000), rng.choice(TF_METHODS), arr, rng.choice([0, 0, 1, 1, 2])]
    if kind == "coulomb":
        return ["coulomb", rng.choice(ELEMENTS)]
    if kind == "perturb_rng":
        return ["perturb_rng", rng.randrange(50), rng.choice([None, 1, 99])]
    if kind == "arm":
        fk = rng.choice(cfg["fault_kinds"])
        match = rng.choice(["", "", method, "atomic_gauss", "prune_grid"])
        return ["arm", fk, match, rng.randrange(14), rng.randint(1, 3), round(rng.random(), 4)]
    if kind == "heal":
        return ["heal"]
    if kind == "invalid":
        return ["invalid", rng.choice(["ang_degree_neg", "ang_degree_huge", "ang_method", "atom_shape", "atom_center", "tf_zero", "shell_index"]), method]
    raise ValueError(kind)


BASE_KINDS = [
    ("ang", 10), ("atom", 7), ("pruned", 2), ("preset", 1), ("shell", 4), ("mol", 2.5), ("molctor", 1.5), ("moluse", 3.5), ("use", 5), ("edit", 7),
    ("reobserve", 3), ("drop", 1.5), ("restart", 2), ("tf_new", 2), ("tf_call", 6), ("tf_wrap", 2), ("tf_wcall", 4), ("coulomb", 3), ("perturb_rng", 1), ("invalid", 1.5),
]


def _gen_cfg(rng, submode):
    methods = [m for m in M.METHODS if rng.random() < 0.5] or [rng.choice(M.METHODS)]
    pool = {m: _small_degrees(m, rng, rng.randint(1, 4)) for m in M.METHODS}
    kinds = []
    for k, w in BASE_KINDS:
        if k in ("ang", "atom", "edit") or rng.random() < 0.75:
            kinds.append([k, w * rng.choice([0.5, 1, 1, 2])])
    faulty = submode in ("seq-fault", "threads-fault")
    fault_kinds = [k for k in FAULT_KINDS if rng.random() < 0.6] or [rng.choice(FAULT_KINDS)]
    if faulty:
        kinds.append(["arm", rng.choice([1.5, 3, 5])])
        kinds.append(["heal", rng.choice([1, 2])])
    return {"methods": methods, "pool": pool, "kinds": kinds, "fault_kinds": fault_kinds, "faulty": faulty}


# ================================================================================================
# execution
# ================================================================================================


class Obj:
    __slots__ = ("kind", "obj", "recipe", "model", "dirty", "keys", "owner")

    def __init__(self, kind, obj, recipe, model, keys, owner):
        self.kind = kind
        self.obj = obj
        self.recipe = recipe
        self.model = model
        self.dirty = False
        self.keys = keys  # set of (method, degree) this object was built from
        self.owner = owner


class Ctx:
    """State of one simulated run."""

    def __init__(self, spec, known_keys):
        self.spec = spec
        self.known = known_keys
        self.log = EventLog()
        self.faults = Counter()
        self.probes = Counter()
        self.states = set()
        self.violations = []
        self.known_hits = []
        self.store = SimStore(self.faults, None)
        self.rng_seam = RngSeam(self.faults, None)
        self.objs = {}  # owner -> list[Obj]
        self.rgrids = {}
        self.step = 0
        self.perturbed = set()  # keys touched by edit/restart/fault/other thread
        self.seen_keys = {}  # key -> set(owners)
        self.nontrivial = False
        self.sched = None
        self.n_ops = 0
        self.perturbed_tags = set()
        self.released_ids = {}
        self.caller_seqs = {}
        self.caller_seq_snap = {}
        self.steer = False
        self.coulomb_state = "cold"
        self.coulomb_perturbed = False
        self.any_fault_fired_keys = set()

    # ---- helpers -------------------------------------------------------------------------------
    def violate(self, inv, opkind, sig, detail):
        cls = f"{PID}:{inv}:{opkind}"
        key = f"{cls}:{sig}"
        if key in self.known:
            self.known_hits.append(key)
            self.log.add(self.step, "known", key)
            return
        self.violations.append(Violation(cls, key, detail, self.step))
        self.log.add(self.step, "VIOLATION", key)

    def pick(self, owner, kinds, h):
        lst = [o for o in self.objs.get(owner, []) if o.kind in kinds]
        if not lst:
            return None
        return lst[h % len(lst)]

    def add(self, owner, o):
        self.objs.setdefault(owner, []).append(o)
        return o

    def mark(self):
        return len(self.store.fired_log)

    def fired_since(self, mark):
        """Did an injected store fault fire in *this* caller thread since `mark`?"""
        me = threading.get_ident()
        return any(t == me for _, _, t in self.store.fired_log[mark:])


def _cache_dicts():
    import grid.angular as ga

    out = {}
    for name, m in (("LEBEDEV_CACHE", "lebedev"), ("SPHERICAL_CACHE", "spherical"), ("MAX_DET_CACHE", "maxdet"), ("AHRENS_BEYLKIN_CACHE", "ahrens_beylkin")):
        d = getattr(ga, name, None)
        if isinstance(d, dict):
            out[m] = d
    return out


def _restart(which):
    """Process restart: only volatile state is lost ("all" = every module-level container, lazily
    loaded table and mutable default back to its import-time value; the partial variants clear one
    cache family the way the test-suite does)."""
    import grid.coulomb as gc

    if which == "all":
        procstate.restore()
        return
    if which == "angular":
        for d in _cache_dicts().values():
            d.clear()
    if which == "coulomb":
        if hasattr(gc, "_ATOMIC_GAUSS_PARAMS_CACHE"):
            gc._ATOMIC_GAUSS_PARAMS_CACHE = None


class _Cold:
    """Harness-internal library call in a cold, fault-free context (reference executions).

    Volatile state is swapped out and restored afterwards, so a reference execution neither sees nor
    leaves any history.  Under the thread scheduler the section is atomic.
    """

    def __init__(self, ctx):
        self.ctx = ctx

    def __enter__(self):
        c = self.ctx
        if c.sched is not None:
            c.sched.atomic_depth += 1
        self.saved = procstate.save_current()
        procstate.restore()
        self.armed = c.store.armed
        c.store.armed = []
        self.counters = c.store.counters
        c.store.counters = Counter()
        self.nlog = len(c.store.fired_log)
        return self

    def __exit__(self, *exc):
        c = self.ctx
        procstate.load(self.saved)
        c.store.armed = self.armed
        c.store.counters = self.counters
        del c.store.fired_log[self.nlog:]
        if c.sched is not None:
            c.sched.atomic_depth -= 1
        return False


def _outcome(fn):
    try:
        return ("ok", fn())
    except BaseException as exc:  # noqa: BLE001 - outcome classification
        if isinstance(exc, (KeyboardInterrupt, SystemExit)) or type(exc).__name__ == "_RunTimeout":
            raise
        return ("raise", exc)


def _is_readonly_error(exc):
    return isinstance(exc, ValueError) and ("read-only" in str(exc) or "WRITEABLE" in str(exc))


# ---- constructors shared by live execution and cold reference ------------------------------------


def _build(ctx, recipe, live=False):
    """Build the object described by a constructing op (used live and in cold references)."""
    from grid.angular import AngularGrid
    from grid.atomgrid import AtomGrid

    kind = recipe[0]
    if kind == "ang":
        _, method, k, value, cache = recipe
        if k == "degree":
            return AngularGrid(degree=value, cache=cache, method=method)
        return AngularGrid(size=value, cache=cache, method=method)
    if kind == "atom":
        _, rspec, degspec, center, rotate, method = recipe
        rg = _rgrid(ctx, rspec)
        # argument *types* vary deterministically with the recipe: list / ndarray sequences, ndarray / list centre,
        # Python / NumPy integer seed (the values are the same, so the model does not care)
        flavour = derive_seed(0, "flavour", hash_obj(recipe)) % 4
        c = np.array(center, dtype=float) if flavour % 2 == 0 else [float(v) for v in center]
        rot = rotate  # (a NumPy integer seed passes AtomGrid.__init__'s check but is rejected further down - a C05 matter, not generated)
        def seq(v, kind=degspec[0]):
            # the caller's own degrees / sizes sequences: one object per distinct content and flavour, created once per
            # run and handed to every construction that asks for the same values (live constructions only)
            if not live:
                return list(v) if flavour in (0, 3) else np.array(v, dtype=int)
            key = (kind, tuple(v), flavour in (0, 3))
            if key not in ctx.caller_seqs:
                ctx.caller_seqs[key] = list(v) if flavour in (0, 3) else np.array(v, dtype=int)
                ctx.caller_seq_snap[key] = list(v)
            else:
                ctx.probes.hit("caller-sequence-reused-between-constructions")
            return ctx.caller_seqs[key]

        if degspec[0] == "default":
            args, kw = (rg,), {"center": c, "rotate": rot, "method": method}
        elif degspec[0] == "deg":
            args, kw = (rg,), {"degrees": seq(degspec[1]), "center": c, "rotate": rot, "method": method}
        else:
            args, kw = (rg, None), {"sizes": seq(degspec[1]), "center": c, "rotate": rot, "method": method}
        # object-identity reuse as a simulated event: if the caller dropped an atomic grid just before, the new one is
        # steered onto the released address (see simkit/addr.py)
        # (never under the thread scheduler: the number of constructions the steering needs is address-dependent and
        # would leak into the schedule)
        held = ctx.released_ids.pop("atom", None) if (live and getattr(ctx, "steer", False) and ctx.sched is None) else None
        target = None
        if held is not None:
            # the dropped grid was kept alive by the simulator until this very moment
            target = id(held)
            wr = weakref.ref(held)
            held = None
            if wr() is not None:
                target = None
                ctx.probes.hit("dropped-atomgrid-still-referenced")
        if target is not None:
            g, landed = build_at_released_address(target, AtomGrid, args, kw)
            ctx.probes.hit("atomgrid-built-at-released-address" if landed else "atomgrid-address-steering-missed")
            return g
        return AtomGrid(*args, **kw)
    if kind == "pruned":
        _, rspec, radius, r_sectors, secs, center, rotate, method = recipe
        rg = _rgrid(ctx, rspec)
        c = np.array(center, dtype=float)
        def shared(kind, v, as_array):
            if not live:
                return np.array(v) if as_array else list(v)
            key = (kind, tuple(v), as_array)
            if key not in ctx.caller_seqs:
                ctx.caller_seqs[key] = np.array(v) if as_array else list(v)
                ctx.caller_seq_snap[key] = list(v)
            else:
                ctx.probes.hit("caller-sequence-reused-between-constructions")
            return ctx.caller_seqs[key]

        arr = derive_seed(0, "flavour", hash_obj(recipe)) % 2 == 1
        if secs[0] == "deg":
            return AtomGrid.from_pruned(rg, radius, shared("r", r_sectors, arr), shared("d", secs[1], arr), center=c, rotate=rotate, method=method)
        return AtomGrid.from_pruned(rg, radius, shared("r", r_sectors, arr), None, s_sectors=shared("s", secs[1], arr), center=c, rotate=rotate, method=method)
    if kind == "preset":
        _, atnum, preset, center, rotate = recipe[:5]
        rspec = recipe[5] if len(recipe) > 5 else None
        if rspec is None:
            return AtomGrid.from_preset(atnum, preset, center=np.array(center, dtype=float), rotate=rotate)
        # the caller's own, short-lived radial grid (one per construction, as in a convergence loop).  In live sequential
        # runs the simulator also decides where it is allocated: on the address of the radial grid of an atomic grid the
        # caller dropped just before (object-identity reuse, simkit/addr.py).
        from grid.basegrid import OneDGrid

        tmpl = M.build_rgrid(rspec)
        args = (np.array(tmpl.points), np.array(tmpl.weights), tmpl.domain)
        held = ctx.released_ids.pop("atom", None) if (live and getattr(ctx, "steer", False) and ctx.sched is None) else None
        target = None
        if held is not None and getattr(held, "rgrid", None) is not None:
            target = id(held.rgrid)
            wr = weakref.ref(held.rgrid)
            held = None
            if wr() is not None:
                target = None
        held = None
        if target is not None:
            rg, landed = build_at_released_address(target, OneDGrid, args, {})
            ctx.probes.hit("radial-grid-built-at-released-address" if landed else "radial-grid-address-steering-missed")
        else:
            rg = OneDGrid(*args)
        return AtomGrid.from_preset(atnum, preset, rgrid=rg, center=np.array(center, dtype=float), rotate=rotate)
    raise ValueError(kind)


def _rgrid(ctx, rspec):
    k = hash_obj(rspec)
    rg = ctx.rgrids.get(k)
    if rg is None:
        rg = M.build_rgrid(rspec)
        ctx.rgrids[k] = rg
    return rg


def _resolved_degrees(recipe, n):
    """Model: the degree each shell must get (None if the request is invalid)."""
    kind = recipe[0]
    if kind == "atom":
        _, rspec, degspec, center, rotate, method = recipe
        if degspec[0] == "default":
            reqs = [("degree", 50)] * n
        else:
            k = "degree" if degspec[0] == "deg" else "size"
            vals = degspec[1]
            if len(vals) == 1:
                vals = vals * n
            if len(vals) != n:
                return None
            reqs = [(k, v) for v in vals]
        out = []
        for k, v in reqs:
            r = M.resolve(method, k, v)
            if r is None:
                return None
            out.append(r[0])
        return out
    return None


# ---- observation -----------------------------------------------------------------------------------


def _observe_ang(ctx, opkind, o, when):
    g = o.obj
    method, degree = o.model
    pts, w, _ = M.pristine(method, degree)
    sig = f"{method}:{when}"
    ok = True
    if g.degree != degree or g.size != len(w):
        ctx.violate("ang-degree-size", opkind, sig, f"{method} expected degree {degree} size {len(w)}, got degree {g.degree} size {g.size}")
        ok = False
    gp, gw = np.asarray(g.points), np.asarray(g.weights)
    if gp.shape != pts.shape or not np.array_equal(gp, pts):
        nbad = int(np.sum(gp != pts)) if gp.shape == pts.shape else -1
        ctx.violate("ang-points", opkind, sig, f"AngularGrid({method}, degree={degree}).points differ from shipped data ({when}); {nbad} entries differ")
        ok = False
    if gw.shape != w.shape or not M.ulp_close(gw, w, 4):
        ctx.violate("ang-weights", opkind, sig, f"AngularGrid({method}, degree={degree}).weights differ from shipped data ({when})")
        ok = False
    return ok


def _observe_atom(ctx, opkind, o, when):
    g = o.obj
    m = o.model
    sig = f"{m['method']}:{when}"
    if m.get("ref") is not None:
        # reference-execution oracle (presets): equal to the cold, fault-free execution of the same call
        rp, rw, ri, rd = m["ref"]
        good = (
            M.close(g.points, rp)
            and M.close(g.weights, rw)
            and np.array_equal(np.asarray(g.indices), ri)
            and list(g.degrees) == rd
        )
        if not good:
            ctx.violate("atom-ref", opkind, sig, f"{o.recipe[:3]} differs from the same call in a cold fault-free process ({when})")
        return good
    mp, mw, mi = m["points"], m["weights"], m["indices"]
    good = True
    if [int(d) for d in g.degrees] != m["degrees"]:
        ctx.violate("atom-degrees", opkind, sig, f"degrees {list(g.degrees)[:8]} != model {m['degrees'][:8]} ({when})")
        good = False
    if not np.array_equal(np.asarray(g.indices), mi):
        ctx.violate("atom-indices", opkind, sig, f"shell index table differs from model ({when})")
        good = False
    if not M.close(g.points, mp):
        ctx.violate("atom-points", opkind, sig, f"atomic grid points differ from centre + r_i * shipped unit sphere ({when}); recipe {str(o.recipe)[:160]}")
        good = False
    if not M.close(g.weights, mw):
        ctx.violate("atom-weights", opkind, sig, f"atomic grid weights differ from w_i r_i^2 * shipped weights ({when}); recipe {str(o.recipe)[:160]}")
        good = False
    return good


def _observe_mol(ctx, opkind, o, when):
    g = o.obj
    m = o.model
    good = M.close(g.points, m["points"]) and M.close(g.weights, m["weights"], rtol=1e-10) and np.array_equal(np.asarray(g.indices), m["indices"])
    if not good:
        ctx.violate("mol", opkind, when, f"molecular grid differs from concatenation of model atomic grids ({when})")
    return good


def _observe(ctx, opkind, o, when):
    if o.dirty:
        return None
    if o.kind == "ang":
        r = _observe_ang(ctx, opkind, o, when)
    elif o.kind == "atom":
        r = _observe_atom(ctx, opkind, o, when)
    elif o.kind == "mol":
        r = _observe_mol(ctx, opkind, o, when)
    elif o.kind == "shellgrid":
        pts, wts = o.model
        r = M.close(o.obj.points, pts) and M.close(o.obj.weights, wts)
        if not r:
            ctx.violate("shell", opkind, when, f"shell grid differs from model ({when})")
    else:
        return None
    for k in o.keys:
        if k in ctx.perturbed:
            ctx.nontrivial = True
            ctx.probes.hit("observe-after-perturbation")
    return r


def _note_key(ctx, owner, key, live=True):
    """Statistics: abstract cache state of `key` at the moment it is requested."""
    cd = _cache_dicts().get(key[0])
    warm = cd is not None and key[1] in cd
    e = "E" if ("edit", key) in ctx.perturbed_tags else "-"
    f = "F" if key in ctx.any_fault_fired_keys else "-"
    ctx.states.add(f"{key[0]}:{key[1]}:{'warm' if warm else 'cold'}:{e}{f}")
    owners = ctx.seen_keys.setdefault(key, set())
    if owners - {owner}:
        ctx.perturbed.add(key)
        ctx.probes.hit("key-shared-between-threads")
    owners.add(owner)
    if warm and e == "E":
        ctx.probes.hit("cache-hit-after-edit-of-same-key")
    return warm


# ---- operations ------------------------------------------------------------------------------------


def _op_construct(ctx, owner, op):
    kind = op[0]
    # model first (independent of the library call)
    model = None
    keys = set()
    expect_raise = False
    if kind == "ang":
        _, method, k, value, cache = op
        r = M.resolve(method, k, value)
        if r is None:
            expect_raise = True
        else:
            model = (method, r[0])
            keys = {(method, r[0])}
    elif kind in ("atom", "pruned"):
        rspec = op[1]
        method = op[-1]
        rg = _rgrid(ctx, rspec)
        n = rg.size
        if kind == "atom":
            degs = _resolved_degrees(op, n)
        else:
            _, rspec, radius, r_sectors, secs, center, rotate, method = op
            k = "degree" if secs[0] == "deg" else "size"
            res = [M.resolve(method, k, v) for v in secs[1]]
            degs = None if any(x is None for x in res) else M.pruned_degrees(rg.points, radius, r_sectors, [x[0] for x in res])
        if degs is None:
            expect_raise = True
        else:
            center, rotate = (op[3], op[4]) if kind == "atom" else (op[5], op[6])
            mp, mw, mi = M.model_atom(rg.points, rg.weights, degs, center, rotate, method)
            model = {"points": mp, "weights": mw, "indices": mi, "degrees": [int(d) for d in degs], "method": method,
                     "rpoints": np.array(rg.points), "rweights": np.array(rg.weights), "rotate": rotate, "center": list(center)}
            keys = {(method, int(d)) for d in degs}
    elif kind == "preset":
        with _Cold(ctx):
            oc = _outcome(lambda: _build(ctx, op))
        if oc[0] == "raise":
            expect_raise = True
            model = None
        else:
            ref = oc[1]
            model = {"ref": (np.array(ref.points), np.array(ref.weights), np.array(ref.indices), [int(d) for d in ref.degrees]), "method": "lebedev"}
            keys = {("lebedev", int(d)) for d in ref.degrees}
            ctx.probes.hit("reference-execution")
    warm_all = True
    for key in sorted(keys):
        warm_all &= _note_key(ctx, owner, key)
    had_fault = ctx.store.active()
    mark = ctx.mark()
    oc = _outcome(lambda: _build(ctx, op, live=True))
    fired = ctx.fired_since(mark)
    if fired:
        for key in keys:
            ctx.any_fault_fired_keys.add(key)
            ctx.perturbed.add(key)
    if oc[0] == "raise":
        exc = oc[1]
        if expect_raise:
            ctx.log.add(ctx.step, kind, "raise-expected", type(exc).__name__)
            return
        if fired or had_fault:
            ctx.probes.hit("construction-failed-under-fault" + ("-warm" if warm_all else "-cold"))
            ctx.log.add(ctx.step, kind, "raise-under-fault", type(exc).__name__)
            return
        ctx.violate("unexpected-raise", kind, type(exc).__name__, f"{op} raised {type(exc).__name__}: {exc} with no fault active")
        return
    if expect_raise:
        # an unsupported request was accepted: not a C19 matter (C12); record and move on
        ctx.log.add(ctx.step, kind, "accepted-unsupported")
        return
    if fired:
        ctx.probes.hit("construction-succeeded-despite-fault")
    okind = "ang" if kind == "ang" else "atom"
    o = ctx.add(owner, Obj(okind, oc[1], list(op), model, keys, owner))
    _observe(ctx, kind, o, "at-construction")
    ctx.log.add(ctx.step, kind, "ok", hash_array(oc[1].points), hash_array(oc[1].weights))
    if kind == "atom" and op[2][0] == "default":
        ctx.probes.hit("default-argument-constructor")
    if kind in ("atom", "pruned") and float(model["rpoints"][0]) == 0.0:
        ctx.probes.hit("radial-node-at-zero")
    if kind == "ang" and not op[4]:
        ctx.probes.hit("cache-off-construction")


def _op_shell(ctx, owner, op):
    _, h, i, r_sq = op
    o = ctx.pick(owner, ("atom",), h)
    if o is None or o.dirty or o.model.get("ref") is not None:
        ctx.log.add(ctx.step, "shell", "skip")
        return
    m = o.model
    i = i % len(m["degrees"])
    key = (m["method"], m["degrees"][i])
    _note_key(ctx, owner, key)
    had_fault = ctx.store.active()
    mark = ctx.mark()
    oc = _outcome(lambda: o.obj.get_shell_grid(i, r_sq=r_sq))
    fired = ctx.fired_since(mark)
    if oc[0] == "raise":
        if fired or had_fault:
            ctx.log.add(ctx.step, "shell", "raise-under-fault", type(oc[1]).__name__)
            return
        ctx.violate("unexpected-raise", "shell", type(oc[1]).__name__, f"get_shell_grid({i}) raised {oc[1]!r}")
        return
    pts, wts = M.model_shell(m["rpoints"], m["rweights"], m["degrees"], i, m["rotate"], m["method"], r_sq)
    so = ctx.add(owner, Obj("shellgrid", oc[1], list(op), (pts, wts), {key}, owner))
    _observe(ctx, "shell", so, "at-construction")
    ctx.log.add(ctx.step, "shell", "ok", hash_array(oc[1].points), hash_array(oc[1].weights))


def _op_mol(ctx, owner, op):
    from grid.becke import BeckeWeights
    from grid.molgrid import MolGrid

    _, h, natoms, store = op
    atoms = [o for o in ctx.objs.get(owner, []) if o.kind == "atom" and not o.dirty and o.model.get("ref") is None]
    if not atoms:
        ctx.log.add(ctx.step, "mol", "skip")
        return
    chosen = []
    for j in range(len(atoms)):
        o = atoms[(h + j) % len(atoms)]
        c = np.array(o.model["center"])
        if all(np.linalg.norm(c - np.array(x.model["center"])) > 0.5 for x in chosen) and o.model["points"].shape[0] < 4000:
            chosen.append(o)
        if len(chosen) == natoms:
            break
    if not chosen:
        ctx.log.add(ctx.step, "mol", "skip")
        return
    atnums = np.array([1 + (h + j) % 8 for j in range(len(chosen))])
    oc = _outcome(lambda: MolGrid(atnums, [o.obj for o in chosen], BeckeWeights(order=3), store=store))
    if oc[0] == "raise":
        ctx.violate("unexpected-raise", "mol", type(oc[1]).__name__, f"MolGrid(...) raised {oc[1]!r}")
        return
    pts = np.vstack([o.model["points"] for o in chosen])
    atw = np.hstack([o.model["weights"] for o in chosen])
    idx = np.concatenate([[0], np.cumsum([o.model["points"].shape[0] for o in chosen])])
    coords = np.array([o.model["center"] for o in chosen], dtype=float)
    aim = BeckeWeights(order=3)(pts, coords, atnums, idx)
    keys = set().union(*[o.keys for o in chosen])
    mo = ctx.add(owner, Obj("mol", oc[1], list(op), {"points": pts, "weights": atw * aim, "indices": idx, "atom_recipes": [o.recipe for o in chosen],
                                                    "atnums": atnums.copy(), "store": bool(store), "coords": coords, "atom_objs": list(chosen)}, keys, owner))
    _observe(ctx, "mol", mo, "at-construction")
    ctx.log.add(ctx.step, "mol", "ok", hash_array(oc[1].points), hash_array(oc[1].weights))


def _build_molctor(ctx, op):
    from grid.becke import BeckeWeights
    from grid.molgrid import MolGrid

    _, how, atnums, coords, rspec, size, rotate, store, r_sectors, d_sectors = op
    rg = _rgrid(ctx, rspec) if rspec is not None else None
    an = np.array(atnums)
    ac = np.array(coords, dtype=float)
    if how == "size":
        return MolGrid.from_size(an, ac, size, rgrid=rg, aim_weights=BeckeWeights(order=3), rotate=rotate, store=store)
    if how == "pruned":
        n = len(atnums)
        return MolGrid.from_pruned(an, ac, 1.0, [list(r_sectors)] * n, [list(d_sectors)] * n, rgrid=rg, aim_weights=BeckeWeights(order=3), rotate=rotate, store=store)
    return MolGrid.from_preset(an, ac, "coarse", rgrid=rg, aim_weights=BeckeWeights(order=3), rotate=rotate, store=store)


def _op_molctor(ctx, owner, op):
    """Convenience constructors of MolGrid: equal to the same call in a cold, fault-free process."""
    with _Cold(ctx):
        rc = _outcome(lambda: _build_molctor(ctx, op))
    ctx.probes.hit("reference-execution")
    if rc[0] == "raise":
        ctx.log.add(ctx.step, "molctor", "reference-raised", type(rc[1]).__name__)
        return
    ref = rc[1]
    had_fault = ctx.store.active()
    mark = ctx.mark()
    oc = _outcome(lambda: _build_molctor(ctx, op))
    fired = ctx.fired_since(mark)
    if oc[0] == "raise":
        if fired or had_fault:
            ctx.log.add(ctx.step, "molctor", "raise-under-fault", type(oc[1]).__name__)
            return
        ctx.violate("unexpected-raise", "molctor", type(oc[1]).__name__, f"{op[:4]} raised {oc[1]!r} but the cold reference did not")
        return
    g = oc[1]
    good = M.close(g.points, ref.points) and M.close(g.weights, ref.weights, rtol=1e-10) and np.array_equal(np.asarray(g.indices), np.asarray(ref.indices)) and M.close(g.aim_weights, ref.aim_weights, rtol=1e-10)
    if not good:
        ctx.violate("mol-ref", "molctor", op[1], f"MolGrid.from_{op[1]}{op[2:4]} differs from the same call in a cold fault-free process")
    keys = set()
    for k in list(ctx.seen_keys):
        if k[0] == "lebedev" and k in ctx.perturbed:
            ctx.nontrivial = True
    mo = ctx.add(owner, Obj("mol", g, list(op), {"points": np.array(ref.points), "weights": np.array(ref.weights), "indices": np.array(ref.indices)}, keys, owner))
    ctx.log.add(ctx.step, "molctor", op[1], "ok", hash_array(g.points), hash_array(g.weights))


def _func_on(points, center):
    d = points - np.asarray(center)
    r2 = np.sum(d * d, axis=1)
    return np.exp(-0.7 * r2) * (1.0 + 0.3 * d[:, 2] + 0.2 * d[:, 0] * d[:, 1])


def _op_use(ctx, owner, op):
    _, h, what = op[:3]
    var = op[3] if len(op) > 3 else 0
    o = ctx.pick(owner, ("atom",), h)
    if o is None or o.dirty:
        ctx.log.add(ctx.step, "use", "skip")
        return
    g = o.obj
    m = o.model
    if m.get("ref") is not None:
        pts, center = m["ref"][0], np.array(o.recipe[3], dtype=float)
        wts = m["ref"][1]
    else:
        pts, center, wts = m["points"], np.array(m["center"]), m["weights"]
    f = _func_on(pts, center)
    if (var // 4) % 2:
        f = f * (0.5 + np.cos(pts[:, 1] - 0.2)) + 0.1  # another function on the same grid
    other = center + np.array([0.3, -0.2, 0.45])
    probe = np.array([[0.1, 0.2, 0.3], [-0.4, 0.5, 0.2], [0.0, 0.0, 1.1], [0.9, -0.3, -0.2]]) + center
    for key in sorted(o.keys):
        _note_key(ctx, owner, key)
    had_fault = ctx.store.active()
    mark = ctx.mark()

    keep = {}

    def live(gg, hold=False):
        if what == "integrate":
            return np.asarray(gg.integrate(f))
        if what == "angint":
            return np.asarray(gg.integrate_angular_coordinates(f))
        if what == "sph":
            v = var % 4
            if v == 0:
                return np.asarray(gg.convert_cartesian_to_spherical())
            if v == 1:
                return np.asarray(gg.convert_cartesian_to_spherical(center=other))
            if v == 2:
                return np.asarray(gg.convert_cartesian_to_spherical(probe))
            return np.asarray(gg.convert_cartesian_to_spherical(probe, other))
        if what == "peek":
            # a look at every public property of the object (values discarded): looking must not change later answers
            for nm in sorted(n for n in dir(type(gg)) if not n.startswith("_") and isinstance(getattr(type(gg), n, None), property)):
                getattr(gg, nm)
            return np.zeros(1)
        if what == "savg":
            return np.asarray(gg.spherical_average(f)(np.array([0.2, 0.7, 1.3])))
        if what == "spline":
            return np.array([s(np.array([0.3, 0.9])) for s in gg.radial_component_splines(f)])
        if what == "interp":
            q = np.asarray(pts[: min(len(pts), 40)])
            v = var % 4
            fn = gg.interpolate(f)
            if hold:
                keep["fn"] = fn
            if v == 0:
                return np.asarray(fn(q))
            if v == 1:
                return np.asarray(fn(probe, deriv=1))
            if v == 2:
                return np.asarray(fn(probe, deriv=1, deriv_spherical=True))
            return np.asarray(fn(probe, deriv=1, only_radial_deriv=True))
        if what == "basis":
            gg.radial_component_splines(f)
            return np.asarray(gg.basis)
        raise ValueError(what)

    oc = _outcome(lambda: live(g, hold=True))
    fired = ctx.fired_since(mark)
    # what an earlier call on this object handed out (an interpolating function) belongs to the caller: it is evaluated
    # again now, after whatever happened since, and must still give the values it gave when it was new
    held = m.get("held_interp")
    if held is not None and not had_fault and not fired:
        hfn, hq, hv = held
        ho = _outcome(lambda: np.asarray(hfn(hq.copy())))
        if ho[0] == "ok":
            if ho[1].shape != hv.shape or not M.close(ho[1], hv, rtol=1e-12):
                ctx.violate("held-result-changed", "use-interp", m["method"], "an interpolating function returned by an earlier interpolate() call on this grid gives other values after later calls on the same grid")
            ctx.probes.hit("held-interpolant-re-evaluated")
        elif not fired:
            ctx.violate("held-result-changed", "use-interp", m["method"] + ":raise", f"an interpolating function returned earlier now raises {ho[1]!r}")

    # reference: the same use on the same recipe in a cold fault-free context
    with _Cold(ctx):
        rc = _outcome(lambda: live(_build(ctx, o.recipe)))
    ctx.probes.hit("reference-execution")
    if oc[0] == "raise":
        if fired or had_fault:
            ctx.log.add(ctx.step, "use", what, "raise-under-fault", type(oc[1]).__name__)
            return
        if rc[0] == "raise" and type(rc[1]) is type(oc[1]):
            ctx.log.add(ctx.step, "use", what, "raise-same-as-reference", type(oc[1]).__name__)
            return
        ctx.violate("unexpected-raise", "use-" + what, type(oc[1]).__name__, f"{what} raised {oc[1]!r} but the cold reference did not")
        return
    if rc[0] == "raise":
        ctx.log.add(ctx.step, "use", what, "reference-raised")
        return
    good = M.close(oc[1], rc[1], rtol=1e-9)
    if what == "integrate" and good:
        good = M.close(oc[1], np.sum(wts * f), rtol=1e-9, scale=max(1.0, float(np.sum(np.abs(wts * f)))))
    if not good:
        ctx.violate("use", "use-" + what, m["method"], f"{what} on {str(o.recipe)[:120]} differs from the same call sequence in a cold fault-free process")
    for k in o.keys:
        if k in ctx.perturbed:
            ctx.nontrivial = True
    if what == "interp" and "fn" in keep and not (fired or had_fault):
        hq = np.asarray(pts[: min(len(pts), 25)], dtype=float) + 0.01
        hv = _outcome(lambda: np.asarray(keep["fn"](hq.copy())))
        if hv[0] == "ok":
            m["held_interp"] = (keep["fn"], hq, hv[1].copy())
    ctx.log.add(ctx.step, "use", what, var, "ok", hash_array(oc[1]))


def _op_moluse(ctx, owner, op):
    """Use of a molecular grid assembled from live atomic grids: integration, interpolation (store=True), extraction of an
    atomic grid, a look at all properties - equal to the same call on a molecular grid assembled from freshly built atomic
    grids in a cold process; interpolating functions handed out earlier are held and re-evaluated."""
    from grid.becke import BeckeWeights
    from grid.molgrid import MolGrid

    _, h, what, var = op
    o = ctx.pick(owner, ("mol",), h)
    if o is None or o.dirty or "atom_recipes" not in o.model or any(a.dirty or a.obj is None for a in o.model["atom_objs"]):
        # (a stored molecular grid shares its atomic grid objects with the caller: once the caller has edited one of
        # them, what the molecular grid answers is the caller's own doing)
        ctx.log.add(ctx.step, "moluse", "skip")
        return
    m = o.model
    if what == "interp" and not m["store"]:
        what = "integrate"
    mid = np.mean(m["coords"], axis=0)
    f = _func_on(m["points"], mid) * (1.0 + 0.25 * (var % 3))
    probe = mid + np.array([[0.1, 0.2, 0.3], [-0.4, 0.5, 0.2], [0.0, 0.0, 1.1], [0.9, -0.3, -0.2], [0.3, 0.3, -0.6]])
    keep = {}

    def live(gg, hold=False):
        if what == "integrate":
            return np.asarray(gg.integrate(f))
        if what == "interp":
            fn = gg.interpolate(f)
            if hold:
                keep["fn"] = fn
            return np.asarray(fn(probe.copy()))
        if what == "atomic":
            ag = gg.get_atomic_grid(var % len(m["atnums"])) if var % 2 else gg[var % len(m["atnums"])]
            return np.concatenate([np.ravel(ag.points), np.ravel(ag.weights)])
        for nm in sorted(n for n in dir(type(gg)) if not n.startswith("_") and isinstance(getattr(type(gg), n, None), property)):
            getattr(gg, nm)
        return np.zeros(1)

    for key in sorted(o.keys):
        _note_key(ctx, owner, key)
    had_fault = ctx.store.active()
    mark = ctx.mark()
    oc = _outcome(lambda: live(o.obj, hold=True))
    fired = ctx.fired_since(mark)
    held = m.get("held_interp")
    if held is not None and not had_fault and not fired:
        ho = _outcome(lambda: np.asarray(held[0](held[1].copy())))
        if ho[0] == "ok" and (ho[1].shape != held[2].shape or not M.close(ho[1], held[2], rtol=1e-12)):
            ctx.violate("held-result-changed", "moluse-interp", "mol", "an interpolating function returned by an earlier MolGrid.interpolate() call gives other values after later calls on the same molecular grid")
        elif ho[0] == "raise":
            ctx.violate("held-result-changed", "moluse-interp", "mol:raise", f"an interpolating function returned earlier by MolGrid.interpolate() now raises {ho[1]!r}")
        ctx.probes.hit("held-molecular-interpolant-re-evaluated")
    with _Cold(ctx):
        rc = _outcome(lambda: live(MolGrid(m["atnums"].copy(), [_build(ctx, r) for r in m["atom_recipes"]], BeckeWeights(order=3), store=m["store"])))
    ctx.probes.hit("reference-execution")
    if oc[0] == "raise":
        if fired or had_fault:
            ctx.log.add(ctx.step, "moluse", what, "raise-under-fault", type(oc[1]).__name__)
            return
        if rc[0] == "raise" and type(rc[1]) is type(oc[1]):
            ctx.log.add(ctx.step, "moluse", what, "raise-same-as-reference", type(oc[1]).__name__)
            return
        ctx.violate("unexpected-raise", "moluse-" + what, type(oc[1]).__name__, f"MolGrid {what} raised {oc[1]!r} but the cold reference did not")
        return
    if rc[0] == "raise":
        ctx.log.add(ctx.step, "moluse", what, "reference-raised")
        return
    if np.shape(oc[1]) != np.shape(rc[1]) or not M.close(oc[1], rc[1], rtol=1e-9):
        ctx.violate("use", "moluse-" + what, "mol", f"MolGrid {what} differs from the same call on a molecular grid assembled in a cold fault-free process")
    if what == "interp" and "fn" in keep and not (fired or had_fault):
        hq = probe + 0.013
        hv = _outcome(lambda: np.asarray(keep["fn"](hq.copy())))
        if hv[0] == "ok":
            m["held_interp"] = (keep["fn"], hq, hv[1].copy())
    ctx.probes.hit("molecular-grid-used:" + what)
    ctx.log.add(ctx.step, "moluse", what, var, "ok", hash_array(oc[1]))


def _apply_edit(arr, how):
    """In-place edit by the *caller* of an array some earlier call returned."""
    if isinstance(arr, list):
        if not arr:
            return False
        if how in ("zero", "nan", "negate"):
            arr[0] = 0
        elif how in ("reverse", "sort"):
            arr.reverse()
        else:
            arr[0] = arr[0] + 3
        return True
    if not isinstance(arr, np.ndarray) or arr.size == 0:
        return False
    if how == "zero":
        arr[...] = 0
    elif how == "scale":
        np.multiply(arr, 2, out=arr, casting="unsafe")
    elif how == "add":
        np.add(arr, 1, out=arr, casting="unsafe")
    elif how == "nan":
        if arr.dtype.kind == "f":
            arr[...] = np.nan
        else:
            arr[...] = -1
    elif how == "reverse":
        arr[...] = arr[::-1].copy()
    elif how == "flip":
        arr.flat[arr.size // 2] = arr.flat[arr.size // 2] + 1
    elif how == "negate":
        np.negative(arr, out=arr)
    elif how == "sort":
        arr.sort(axis=0)
    return True


def _op_edit(ctx, owner, op):
    _, h, attr, how = op
    o = ctx.pick(owner, ("ang", "atom", "mol", "shellgrid", "coulomb_result"), h)
    if o is None:
        ctx.log.add(ctx.step, "edit", "skip")
        return
    g = o.obj
    if o.kind == "coulomb_result":
        arr = g[0] if attr in ("points", "indices") else g[1]
    else:
        # reading a public attribute is a library call like any other (a property may compute, load, fail)
        name = attr if attr != "aux" else ("atweights" if o.kind == "mol" else "basis")
        had_fault = ctx.store.active()
        mark = ctx.mark()

        def read():
            if attr == "rgrid":
                # a radial grid that the LIBRARY made (rgrid=None: the per-element default) and handed out inside a
                # stored atomic grid.  (Radial grids the caller made itself are shared by all the grids it gave them
                # to: editing one of those is the caller's own doing and says nothing about the library.)
                if not (o.kind == "mol" and o.recipe[0] == "molctor" and o.recipe[4] is None and getattr(g, "atgrids", None)):
                    return None
                rg = getattr(g.atgrids[0], "rgrid", None)
                return None if rg is None else (rg.points if how in ("zero", "scale", "add", "nan") else rg.weights)
            return getattr(g, name, None)

        oc = _outcome(read)
        if oc[0] == "raise":
            if ctx.fired_since(mark) or had_fault:
                ctx.log.add(ctx.step, "edit", "read-raised-under-fault", type(oc[1]).__name__)
                return
            ctx.violate("unexpected-raise", "edit", f"{o.kind}.{name}:{type(oc[1]).__name__}", f"reading {o.kind}.{name} raised {oc[1]!r} with no fault active")
            return
        arr = oc[1]
    try:
        done = _apply_edit(arr, how)
    except (ValueError, TypeError) as exc:
        # a library that hands out write-protected arrays refuses the edit: fine for the property
        ctx.probes.hit("edit-refused-readonly" if _is_readonly_error(exc) else "edit-not-applicable")
        ctx.log.add(ctx.step, "edit", "refused", type(exc).__name__)
        return
    if not done:
        ctx.log.add(ctx.step, "edit", "nothing")
        return
    o.dirty = True
    for k in o.keys:
        ctx.perturbed.add(k)
        ctx.perturbed_tags.add(("edit", k))
    if o.kind == "coulomb_result":
        ctx.coulomb_perturbed = True
    ctx.probes.hit("edit:" + o.kind + "." + attr)
    ctx.log.add(ctx.step, "edit", o.kind, attr, how)


def _op_drop(ctx, owner, op):
    """The caller lets go of an object (the only reference the harness holds): it is released right now."""
    lst = ctx.objs.get(owner, [])
    kinds = (op[2],) if len(op) > 2 else ("atom", "ang", "shellgrid", "mol")
    cands = [o for o in lst if o.kind in kinds]
    if not cands:
        ctx.log.add(ctx.step, "drop", "skip")
        return
    o = cands[op[1] % len(cands)]
    lst.remove(o)
    kind = o.kind
    if kind == "atom" and ctx.sched is None:
        # released by the simulator right before the next atomic grid is built (object-identity reuse, simkit/addr.py)
        ctx.released_ids["atom"] = o.obj
        ctx.steer = True
    o.obj = None
    ctx.probes.hit("object-dropped:" + kind)
    ctx.log.add(ctx.step, "drop", kind)


def _op_reobserve(ctx, owner, op):
    o = ctx.pick(owner, ("ang", "atom", "mol", "shellgrid"), op[1])
    if o is None or o.dirty:
        ctx.log.add(ctx.step, "reobserve", "skip")
        return
    r = _observe(ctx, "reobserve", o, "re-observed")
    ctx.log.add(ctx.step, "reobserve", o.kind, r)


def _op_restart(ctx, owner, op):
    if ctx.sched is not None:
        # a process restart cannot happen *while* another caller thread is inside the library:
        # inside the threaded phase it is not a legal event (only in the sequential prelude)
        ctx.log.add(ctx.step, "restart", "skipped-in-threads")
        return
    _restart(op[1])
    for k in list(ctx.seen_keys):
        ctx.perturbed.add(k)
    ctx.faults.hit("fault:restart-" + op[1])
    if op[1] in ("all", "coulomb"):
        ctx.coulomb_perturbed = True
    ctx.log.add(ctx.step, "restart", op[1])


def _tf_array(spec):
    if spec[0] == "range":
        return np.arange(spec[1], dtype=float)
    return np.array(spec[1], dtype=float)


def _op_tf_new(ctx, owner, op):
    from grid.rtransform import ExpRTransform, LinearInfiniteRTransform, PowerRTransform

    _, cls, rmin, rmax, b = op
    C = {"linear": LinearInfiniteRTransform, "exp": ExpRTransform, "power": PowerRTransform}[cls]
    oc = _outcome(lambda: C(rmin, rmax, b=b))
    if oc[0] == "raise":
        ctx.violate("unexpected-raise", "tf_new", type(oc[1]).__name__, f"{op} raised {oc[1]!r}")
        return
    ctx.add(owner, Obj("tf", oc[1], list(op), {"cls": cls, "rmin": rmin, "rmax": rmax, "b": b, "calls_after_fix": 0, "poisoned": False}, set(), owner))
    ctx.log.add(ctx.step, "tf_new", cls, b)


def _op_tf_wrap(ctx, owner, op):
    """The caller wraps one of its transforms into an InverseRTransform - possibly before that transform has seen its
    first grid.  The wrapper stands for the inverse of THAT transform, whatever scale it ends up with."""
    from grid.rtransform import InverseRTransform

    o = ctx.pick(owner, ("tf",), op[1])
    if o is None or o.model.get("wrapper") is not None:
        ctx.log.add(ctx.step, "tf_wrap", "skip")
        return
    oc = _outcome(lambda: InverseRTransform(o.obj))
    if oc[0] == "raise":
        ctx.violate("unexpected-raise", "tf_wrap", type(oc[1]).__name__, f"InverseRTransform({o.model['cls']}) raised {oc[1]!r}")
        return
    o.model["wrapper"] = oc[1]
    ctx.probes.hit("inverse-wrapper-made:" + ("scale-fixed" if o.model["b"] is not None else "scale-not-yet-fixed"))
    ctx.log.add(ctx.step, "tf_wrap", o.model["cls"], o.model["b"])


def _op_tf_wcall(ctx, owner, op):
    """A call on the inverse wrapper.  Once the wrapped transform's scale is fixed, the wrapper's answers are the closed
    form of the inverse map with that scale - no matter when the wrapper was made or what was called before."""
    _, h, method, aspec = op
    cands = [x for x in ctx.objs.get(owner, []) if x.kind == "tf" and x.model.get("wrapper") is not None]
    if not cands:
        ctx.log.add(ctx.step, "tf_wcall", "skip")
        return
    o = cands[h % len(cands)]
    m, inv = o.model, o.model["wrapper"]
    if m["b"] is None or m["poisoned"]:
        ctx.log.add(ctx.step, "tf_wcall", "skip-noscale")
        return
    b = float(m["b"])
    x = _tf_array(aspec)
    cf = lambda meth, arr: M.tf_closed_form(m["cls"], m["rmin"], m["rmax"], b, meth, arr)  # noqa: E731
    with np.errstate(all="ignore"):
        if method == "inverse":
            arg, want = x, cf("transform", x)  # inv.inverse(x) = tf.transform(x)
        else:
            arg = np.asarray(cf("transform", x), dtype=float)  # radii in the codomain of tf
            want = {"transform": x, "deriv": 1 / cf("deriv", x), "deriv2": -cf("deriv2", x) / cf("deriv", x) ** 3}[method]
    if not np.all(np.isfinite(arg)):
        ctx.log.add(ctx.step, "tf_wcall", "skip-nonfinite")
        return
    oc = _outcome(lambda: getattr(inv, method)(np.array(arg, dtype=float)))
    if o.obj.b != m["b"]:
        ctx.violate("tf-b-changed", "tf_wcall", f"{m['cls']}:{method}", f"a call on the inverse wrapper changed the scale of the wrapped {m['cls']}: {m['b']} -> {o.obj.b}")
        m["b"] = o.obj.b
        return
    if oc[0] == "raise":
        if isinstance(oc[1], ZeroDivisionError):
            ctx.log.add(ctx.step, "tf_wcall", method, "raise-accepted")
            return
        ctx.violate("unexpected-raise", "tf_wcall", f"{m['cls']}:{method}:{type(oc[1]).__name__}", f"InverseRTransform({m['cls']}).{method} raised {oc[1]!r} although the wrapped transform has scale b={b}")
        return
    got = np.asarray(oc[1], dtype=float)
    fin = np.isfinite(want)
    good = got.shape == np.shape(want) and M.close(np.where(fin, got, 0.0), np.where(fin, want, 0.0), rtol=1e-8) and bool(np.all(np.isfinite(got[fin])))
    if not good:
        ctx.violate("tf-result", "tf_wcall", f"{m['cls']}:{method}", f"InverseRTransform({m['cls']}).{method} differs from the inverse of the wrapped transform with its fixed scale b={b} (depends on when the wrapper was made / what was called before)")
    ctx.nontrivial = True
    ctx.probes.hit("inverse-wrapper-called")
    ctx.log.add(ctx.step, "tf_wcall", method, "ok", hash_array(got))


def _op_tf_call(ctx, owner, op):
    from grid.onedgrid import UniformInteger

    _, h, method, aspec = op[:4]
    style = op[4] if len(op) > 4 else 0
    o = ctx.pick(owner, ("tf",), h)
    if o is None:
        ctx.log.add(ctx.step, "tf_call", "skip")
        return
    tf, m = o.obj, o.model
    x = _tf_array(aspec)
    b_before = tf.b
    if m["b"] is not None and b_before != m["b"]:
        ctx.violate("tf-b-changed", "tf_call", m["cls"], f"{m['cls']} scale changed between calls: {m['b']} -> {b_before}")
        m["b"] = b_before
    is_grid = method == "grid"
    if method in ("grid_bad", "transform_zero"):
        # a first grid the transform must reject (wrong domain / all-zero array): whatever it does, it must not
        # fix the remembered scale - "the first grid it sees" is the first grid it accepts
        from grid.onedgrid import GaussLegendre

        if method == "grid_bad":
            oc = _outcome(lambda: tf.transform_1d_grid(GaussLegendre(max(2, len(x)))))
        else:
            oc = _outcome(lambda: tf.transform(np.zeros(max(1, len(x)))))
        b_after = tf.b
        if oc[0] == "raise" and b_after != b_before and not (b_before is None and b_after is None):
            ctx.violate("tf-rejected-grid-fixed-scale", "tf_call", f"{m['cls']}:{method}", f"{m['cls']}: a grid rejected with {type(oc[1]).__name__} changed the remembered scale {b_before} -> {b_after}")
            m["b"] = b_after
        elif oc[0] == "ok" and m["b"] is None and b_after is not None:
            m["b"] = b_after  # accepted after all (not this property's business); follow the object
        ctx.probes.hit("tf-rejected-grid:" + method)
        ctx.log.add(ctx.step, "tf_call", method, oc[0], b_after)
        return
    if is_grid:
        n = max(2, len(x))
        og = UniformInteger(n)
        x = np.array(og.points, dtype=float)
        oc = _outcome(lambda: tf.transform_1d_grid(og))
    else:
        arg = x.copy()
        if style:
            # the caller's own work buffer (one per caller): refilled in place, the same object goes in again
            wb = ctx.caller_seqs.get(("tf-workbuf", owner))
            if wb is None:
                wb = ctx.caller_seqs[("tf-workbuf", owner)] = x.copy()
            else:
                wb[...] = np.resize(x, wb.shape)
                ctx.probes.hit("tf-work-buffer-refilled-and-reused")
            x = wb.copy()  # (the oracle's own copy of what was asked)
            arg = wb
        oc = _outcome(lambda: getattr(tf, method)(arg))
        if style and not np.array_equal(arg, x):
            arg[...] = x  # (a callee writing into its argument is C20's business; the history continues with what was asked)
    # an array handed out by an earlier call on this transform belongs to the caller: this call must not have changed it
    held = m.get("held_result")
    if held is not None and not np.array_equal(held[0], held[1], equal_nan=True):
        ctx.violate("tf-earlier-result-changed", "tf_call", f"{m['cls']}:{method}", f"an array returned by an earlier {m['cls']}.{held[2]} call changed during a later {method} call")
    m["held_result"] = None
    if not is_grid and oc[0] == "ok" and isinstance(oc[1], np.ndarray):
        m["held_result"] = (oc[1], oc[1].copy(), method)
    b_after = tf.b
    sig = f"{m['cls']}:{method}"
    if m["b"] is None and b_after is not None:
        # this call fixed the scale
        if method in ("transform", "grid") and oc[0] == "ok" and not (b_after == np.max(x)):
            ctx.violate("tf-b-inferred", "tf_call", sig, f"scale inferred as {b_after}, first grid maximum is {np.max(x)}")
        m["b"] = b_after
        ctx.probes.hit("tf-scale-fixed-by:" + method)
        if float(b_after) == 0.0 or not np.isfinite(b_after):
            m["poisoned"] = True  # documented-as-invalid first grid; results follow tf.b consistently
    elif m["b"] is None and b_after is None and oc[0] == "ok" and method in ("transform", "grid") and np.isfinite(np.max(x)) and np.max(x) > 0:
        # "infers its scale from the first grid it sees": an accepted first grid must leave the scale behind
        ctx.violate("tf-scale-not-remembered", "tf_call", sig, f"{m['cls']}.{method} accepted its first grid (maximum {np.max(x)}) but the transform has no scale afterwards: later calls will infer another one")
    elif m["b"] is not None and b_after != m["b"]:
        ctx.violate("tf-b-changed", "tf_call", sig, f"{m['cls']} scale changed by a later {method} call: {m['b']} -> {b_after} (array max {np.max(x)})")
        m["b"] = b_after
    if m["b"] is not None and b_before is not None and np.max(x) > m["b"]:
        ctx.probes.hit("tf-call-with-larger-max-after-fix")
    if oc[0] == "raise":
        exc = oc[1]
        # legitimate failures: zero first maximum, zero derivative, scale not yet fixed for a non-forward call
        if isinstance(exc, (ZeroDivisionError,)) or b_before is None or m["poisoned"]:
            ctx.log.add(ctx.step, "tf_call", method, "raise-accepted", type(exc).__name__)
            return
        ctx.violate("unexpected-raise", "tf_call", sig + ":" + type(exc).__name__, f"{m['cls']}.{method} raised {exc!r} with scale b={m['b']}")
        return
    if m["b"] is None or m["poisoned"]:
        ctx.log.add(ctx.step, "tf_call", method, "ok-noscale")
        return
    b = float(m["b"])
    cf = lambda meth, arr: M.tf_closed_form(m["cls"], m["rmin"], m["rmax"], b, meth, arr)  # noqa: E731
    with np.errstate(all="ignore"):
        if is_grid:
            got = np.concatenate([oc[1].points, oc[1].weights])
            want = np.concatenate([cf("transform", x), cf("deriv", x) * og.weights])
        elif method.endswith("_inverse"):
            xi = cf("inverse", x)
            d1, d2, d3 = cf("deriv", xi), cf("deriv2", xi), cf("deriv3", xi)
            want = {"deriv_inverse": 1 / d1, "deriv2_inverse": -d2 / d1**3, "deriv3_inverse": (3 * d2**2 - d1 * d3) / d1**5}[method]
            got = np.asarray(oc[1], dtype=float)
        else:
            want = cf(method, x)
            got = np.asarray(oc[1], dtype=float)
    fin = np.isfinite(want)
    good = got.shape == want.shape and M.close(np.where(fin, got, 0.0), np.where(fin, want, 0.0), rtol=1e-10) and bool(np.all(np.isfinite(got[fin])))
    if not good:
        ctx.violate("tf-result", "tf_call", sig, f"{m['cls']}.{method} with fixed scale b={b} differs from the closed form (depends on call history)")
    if b_before is not None:
        m["calls_after_fix"] += 1
        if m["calls_after_fix"] >= 2:
            ctx.nontrivial = True
    ctx.log.add(ctx.step, "tf_call", method, "ok", hash_array(got))
    if style == 2 and not is_grid and isinstance(oc[1], np.ndarray) and oc[1].flags.writeable:
        # ... and what a call returned is the caller's to use: scaled in place (r *= 0.5), later calls must not notice
        oc[1][...] *= 0.5
        m["held_result"] = None
        ctx.probes.hit("tf-returned-array-edited-by-caller")


def _op_coulomb(ctx, owner, op):
    from grid.coulomb import load_atomic_gaussian_params
    from grid.utils import num2sym, sym2num

    el = op[1]
    table = M.coulomb_table()
    # model: which symbol is meant, and is it tabulated
    if isinstance(el, str):
        sym = el.strip().title()
        valid = sym in sym2num
    else:
        sym = num2sym.get(int(el))
        valid = sym is not None
    expect_ok = valid and sym in table
    had_fault = ctx.store.active()
    mark = ctx.mark()
    oc = _outcome(lambda: load_atomic_gaussian_params(el))
    fired = ctx.fired_since(mark)
    if fired:
        ctx.coulomb_perturbed = True
        ctx.probes.hit("coulomb-load-faulted")
    if oc[0] == "raise":
        if not expect_ok:
            ctx.log.add(ctx.step, "coulomb", "raise-expected", type(oc[1]).__name__)
            return
        if fired or had_fault:
            ctx.log.add(ctx.step, "coulomb", "raise-under-fault", type(oc[1]).__name__)
            return
        ctx.violate("unexpected-raise", "coulomb", type(oc[1]).__name__, f"load_atomic_gaussian_params({el!r}) raised {oc[1]!r}")
        return
    if not expect_ok:
        ctx.log.add(ctx.step, "coulomb", "accepted-unknown")
        return
    c, a = oc[1]
    wc = np.asarray(table[sym]["coeffs_s"], dtype=float)
    wa = np.asarray(table[sym]["alphas_s"], dtype=float)
    if not (np.array_equal(np.asarray(c), wc) and np.array_equal(np.asarray(a), wa)):
        ctx.violate("coulomb-values", "coulomb", str(sym), f"load_atomic_gaussian_params({el!r}) differs from the shipped table")
    if ctx.coulomb_perturbed:
        ctx.nontrivial = True
        ctx.probes.hit("coulomb-observed-after-perturbation")
    ctx.add(owner, Obj("coulomb_result", (c, a), list(op), None, set(), owner))
    ctx.log.add(ctx.step, "coulomb", "ok", hash_array(c), hash_array(a))


def _op_invalid(ctx, owner, op):
    """Calls that must raise and must leave every cache / remembered parameter intact."""
    from grid.angular import AngularGrid
    from grid.atomgrid import AtomGrid
    from grid.rtransform import ExpRTransform

    _, what, method = op
    tab = M.tables()[method]
    big = max(d for d, _ in tab) + 1

    def call():
        if what == "ang_degree_neg":
            return AngularGrid(degree=-3, method=method)
        if what == "ang_degree_huge":
            return AngularGrid(degree=big, method=method)
        if what == "ang_method":
            return AngularGrid(degree=5, method="no-such-method")
        if what == "atom_shape":
            rg = _rgrid(ctx, ["gl", 4, 0.0, 1.0])
            return AtomGrid(rg, degrees=[tab[0][0], big, tab[1][0], tab[0][0]], method=method)
        if what == "atom_center":
            rg = _rgrid(ctx, ["gl", 3, 0.0, 1.0])
            return AtomGrid(rg, degrees=[tab[0][0]], center=np.zeros(2), method=method)
        if what == "tf_zero":
            return ExpRTransform(0.1, 5.0).transform(np.zeros(3))
        if what == "shell_index":
            o = ctx.pick(owner, ("atom",), 0)
            if o is None:
                raise ValueError("no atom")
            return o.obj.get_shell_grid(10**6)
        raise ValueError(what)

    oc = _outcome(call)
    ctx.log.add(ctx.step, "invalid", what, oc[0], type(oc[1]).__name__ if oc[0] == "raise" else "")
    ctx.probes.hit("invalid-call")


def _op_perturb_rng(ctx, owner, op):
    ctx.rng_seam.perturb(op[1], op[2])
    ctx.log.add(ctx.step, "perturb_rng", op[1], op[2])


def _op_arm(ctx, owner, op):
    _, kind, match, k, count, frac = op
    ctx.store.arm(kind, match, k, count, frac)
    ctx.log.add(ctx.step, "arm", kind, match, k, count)


def _op_heal(ctx, owner, op):
    n = ctx.store.heal()
    ctx.log.add(ctx.step, "heal", n)


OPS = {
    "ang": _op_construct, "atom": _op_construct, "pruned": _op_construct, "preset": _op_construct,
    "shell": _op_shell, "mol": _op_mol, "molctor": _op_molctor, "use": _op_use, "moluse": _op_moluse, "tf_wrap": _op_tf_wrap, "tf_wcall": _op_tf_wcall, "edit": _op_edit, "reobserve": _op_reobserve, "drop": _op_drop,
    "restart": _op_restart, "tf_new": _op_tf_new, "tf_call": _op_tf_call, "coulomb": _op_coulomb,
    "invalid": _op_invalid, "perturb_rng": _op_perturb_rng, "arm": _op_arm, "heal": _op_heal,
}


def _final_phase(ctx):
    """After the last fault: heal, then every key touched must load pristine at the first retry, and
    every live, unedited object must still match its model (bounded liveness + final observation)."""
    from grid.angular import AngularGrid
    from grid.coulomb import load_atomic_gaussian_params

    ctx.store.heal()
    ctx.step = 10**6
    for owner in sorted(ctx.objs):
        for o in ctx.objs[owner]:
            if not o.dirty and o.kind in ("ang", "atom", "mol", "shellgrid"):
                _observe(ctx, "final", o, "final-observation")
    for key in sorted(ctx.seen_keys):
        method, degree = key
        oc = _outcome(lambda: AngularGrid(degree=degree, method=method))
        if oc[0] == "raise":
            ctx.violate("liveness", "final", method, f"after faults stopped, AngularGrid({method}, degree={degree}) still raises {oc[1]!r}")
            continue
        o = Obj("ang", oc[1], ["ang", method, "degree", degree, True], (method, degree), {key}, "final")
        _observe(ctx, "final", o, "fresh-after-history")
        ctx.log.add("final", method, degree, hash_array(oc[1].points), hash_array(oc[1].weights))
    if ctx.coulomb_state != "untouched":
        oc = _outcome(lambda: load_atomic_gaussian_params("C"))
        if oc[0] == "raise":
            ctx.violate("liveness", "final", "coulomb", f"after faults stopped, load_atomic_gaussian_params still raises {oc[1]!r}")
        else:
            t = M.coulomb_table()["C"]
            if not (np.array_equal(oc[1][0], np.asarray(t["coeffs_s"], dtype=float)) and np.array_equal(oc[1][1], np.asarray(t["alphas_s"], dtype=float))):
                ctx.violate("coulomb-values", "final", "C", "Coulomb table differs from shipped data after the history")


def _run_ops(ctx, owner, ops):
    for op in ops:
        ctx.step += 1
        ctx.n_ops += 1
        fn = OPS.get(op[0])
        if fn is None:
            continue
        if ctx.sched is not None:
            ctx.log.add("t", owner)
        had_fault = ctx.store.active()
        mark = ctx.mark()
        try:
            fn(ctx, owner, op)
        except Exception as exc:  # noqa: BLE001
            # the harness's own reads of public attributes are library calls too
            if not library_raised(exc):
                raise
            if ctx.fired_since(mark) or had_fault:
                ctx.log.add(ctx.step, op[0], "attribute-read-raised-under-fault", type(exc).__name__)
                continue
            ctx.violate("unexpected-raise", op[0], f"attribute-read:{type(exc).__name__}", f"reading a public attribute of a library object raised {exc!r} during {op[0]} with no fault active; this caller stops here")
            return


class CacheHistoryEngine:
    NAME = "cache-history"
    RUN_TIMEOUT_S = 600  # generous: a run normally takes well under a second, but the machine may be heavily loaded
    LEVEL = "exploration"
    RULE = (
        "one run = seeded swarm config + operation/fault list (sequential) or 2-3 scheduled caller threads, or (load-fault-enum) every fault kind at "
        "every read index 0..15 of one data file, each followed by the first retry; "
        "non-trivial = the run observed a cache key after a perturbing event on the same key (in-place edit of a returned "
        "array, cache restart, store fault during its load, another thread's construction), or made >=2 transform calls after "
        "the scale was fixed, or re-read the Coulomb table after a restart/fault/edit; distinct = distinct run digests "
        "(sha256 of the event log incl. result hashes)"
    )
    STATE_MEASURE = "set of (method, degree, cold|warm, edited-before?, faulted-before?) cache states at the moment a key is requested; plus distinct schedule digests in threaded runs (counted in distinct_run_digests)"
    COMPONENTS = {
        "real": ["grid.angular.AngularGrid", "grid.atomgrid.AtomGrid (all constructors, shell/analysis methods)", "grid.molgrid.MolGrid", "grid.becke.BeckeWeights",
                 "grid.rtransform Linear/Exp/Power transforms", "grid.coulomb.load_atomic_gaussian_params", "numpy.load / zipfile / json on served bytes", "scipy Rotation, CubicSpline"],
        "stub": ["package data store (serves the real bytes of /repo/src/grid/data, injects eio/enomem/enoent/short/bitflip)", "global NumPy RNG source", "caller-thread scheduler (baton passing at sys.settrace line events)"],
    }
    ASSUMPTIONS = [
        "shipped data files under /repo/src/grid/data are the reference ('those of the shipped data')",
        "degree/size tables of grid.angular are taken as constants (C12 is not claimed)",
        "BeckeWeights and utils.convert_cart_to_sph are used as pure functions inside the model",
        "thread pre-emption only at Python line boundaries inside grid/{angular,coulomb,atomgrid,molgrid,basegrid,rtransform,becke,onedgrid,hirshfeld}.py",
        "a clean batch is sampling evidence, not proof",
    ]

    def submodes(self, tier):
        if tier == "quick":
            return [("seq-nofault", 1600), ("seq-fault", 1600), ("threads", 500), ("threads-fault", 300), ("load-fault-enum", 60)]
        return [("seq-nofault", 120000), ("seq-fault", 120000), ("threads", 50000), ("threads-fault", 30000), ("load-fault-enum", 2000)]

    def determinism_sample(self, tier):
        return 48 if tier == "quick" else 512

    def minimise_budget(self, tier):
        return (500, 120.0)

    def max_reported_classes(self):
        return 3

    # ---- generation ------------------------------------------------------------------------------
    def generate(self, seed, submode):
        rng = random.Random(seed)
        if submode == "load-fault-enum":
            return self._generate_load_fault_enum(rng, seed)
        cfg = _gen_cfg(rng, submode)
        spec = {"engine": self.NAME, "seed": seed, "submode": submode, "cfg": {"methods": cfg["methods"], "pool": cfg["pool"], "faulty": cfg["faulty"]}}
        if submode.startswith("threads"):
            nt = rng.choice([2, 2, 3])
            spec["threads"] = [[_gen_op(rng, cfg) for _ in range(rng.randint(3, 12))] for _ in range(nt)]
            spec["threads"] = [[(["reobserve", 0] if op[0] == "restart" else op) for op in t] for t in spec["threads"]]
            if rng.random() < 0.5:
                # contention opener: every thread starts by building the same (cold) key
                m0 = rng.choice(cfg["methods"])
                d0 = rng.choice(cfg["pool"][m0])
                for t in spec["threads"]:
                    t.insert(0, ["ang", m0, "degree", d0, True])
            spec["sched_seed"] = derive_seed(seed, "sched")
            spec["p_switch"] = rng.choice([0.0, 0.002, 0.01, 0.05])
            spec["p_hot"] = rng.choice([0.0, 0.0, 0.02, 0.1])  # most of the hot-region pre-emption comes from the targeted breaks (simkit/sched.py)
            spec["prelude"] = [_gen_op(rng, cfg) for _ in range(rng.randint(0, 3))]
        else:
            spec["ops"] = [_gen_op(rng, cfg) for _ in range(rng.randint(4, 40))]
            if rng.random() < 0.2:
                # object-recycling pattern: use an atomic grid, let go of it, build a different one (steered onto the
                # released address) and use that one the same way (handle -1 = the most recently built object)
                m0 = rng.choice(cfg["methods"])

                def atom_op():
                    rs = _gen_rspec(rng)
                    nn = max(rs[1], 2) if rs[0] in ("uni", "gl") else rs[1]
                    return ["atom", rs, _gen_degspec(rng, cfg, m0, nn), _gen_center(rng), rng.choice([0, 0, 7]), m0]

                i0, rsq = rng.randrange(3), rng.random() < 0.5
                what = rng.choice(["integrate", "angint", "sph", "spline", "interp"])
                v1, v2 = rng.choice([(0, 0), (0, 0), (rng.randrange(16), rng.randrange(16))])
                pat = [atom_op(), ["shell", -1, i0, rsq], ["use", -1, what, v1], ["drop", -1, "atom"], atom_op(), ["shell", -1, i0, rsq], ["use", -1, what, v2]]
                pos = rng.randint(0, len(spec["ops"]))
                spec["ops"][pos:pos] = pat
            if rng.random() < 0.08:
                # a convergence loop over the caller's own radial grids: build a preset grid on radial grid 1, let go of it,
                # build the same preset on radial grid 2 (same number of nodes, other radii; steered onto the address of 1)
                z, pre, n = rng.choice([1, 6, 8]), rng.choice(PRESETS), rng.choice([8, 12, 20])
                r1, r2 = rng.sample([0.4, 0.8, 1.5, 3.0, 6.0], 2)
                pat = [["preset", z, pre, _gen_center(rng), 0, ["gl", n, 0.0, r1]], ["drop", -1, "atom"], ["preset", z, pre, _gen_center(rng), 0, ["gl", n, 0.0, r2]]]
                pos = rng.randint(0, len(spec["ops"]))
                spec["ops"][pos:pos] = pat
            if rng.random() < 0.06:
                # library-made radial grids: a molecular grid with default radial grids (stored atomic grids), the caller
                # edits the radial grid of one of its atoms, then asks for another molecule with default radial grids
                how = rng.choice(["size", "preset", "preset"])
                an = [rng.choice([1, 6, 8]) for _ in range(2)]
                co = [[0.0, 0.0, 0.0], [0.0, 0.0, round(rng.uniform(1.2, 2.5), 2)]]
                tab_size = M.resolve("lebedev", "degree", rng.choice(cfg["pool"]["lebedev"]))[1]

                def mc(store):
                    return ["molctor", how, list(an), co, None, tab_size, rng.choice([0, 37]), store, [0.5, 1.0], [3, 5, 3]]

                pat = [mc(True), ["edit", -1, "rgrid", rng.choice(["scale", "add", "negate", "reverse"])], mc(rng.random() < 0.5)]
                pos = rng.randint(0, len(spec["ops"]))
                spec["ops"][pos:pos] = pat
        return spec

    def _generate_load_fault_enum(self, rng, seed):
        """Crash-point enumeration for one load: every fault kind at every read index of the file (and of the
        Coulomb JSON / a preset table), each followed by the first retry, which must succeed and be pristine."""
        method = rng.choice(M.METHODS)
        d = _small_degrees(method, rng, 1)[0]
        target = rng.choice(["ang", "ang", "ang", "atom", "coulomb", "preset"])
        ops = []
        for kind in FAULT_KINDS:
            for k in range(16):
                frac = round((k + rng.random()) / 16.0, 4)
                if target == "coulomb":
                    ops += [["restart", "all"], ["arm", kind, "atomic_gauss", k, 1, frac], ["coulomb", rng.choice(["H", 6, "O"])], ["coulomb", "C"]]
                elif target == "preset":
                    ops += [["restart", "all"], ["arm", kind, "prune_grid", k, 1, frac], ["preset", 6, "coarse", [0.0, 0.0, 0.0], 0], ["preset", 6, "coarse", [0.0, 0.0, 0.0], 0]]
                elif target == "atom":
                    a = ["atom", ["gl", 3, 0.0, 1.0], ["deg", [d]], [0.0, 0.0, 0.0], 0, method]
                    ops += [["restart", "all"], ["arm", kind, method, k, 1, frac], a, a]
                else:
                    ops += [["restart", "all"], ["arm", kind, method, k, 1, frac], ["ang", method, "degree", d, True], ["ang", method, "degree", d, True]]
        return {"engine": self.NAME, "seed": seed, "submode": "load-fault-enum", "cfg": {"methods": [method], "pool": {method: [d]}, "faulty": True, "target": target}, "ops": ops}

    # ---- execution -------------------------------------------------------------------------------
    def execute(self, spec, known_keys):
        ctx = Ctx(spec, known_keys)
        ctx.coulomb_state = "any"
        _restart("all")  # every run starts as a fresh process
        np.seterr(all="ignore")
        with StoreSeam(ctx.store), ctx.rng_seam:
            if "threads" in spec:
                self._execute_threads(ctx, spec)
            else:
                _run_ops(ctx, "main", spec["ops"])
            ctx.sched = None
            try:
                _final_phase(ctx)
            except Exception as exc:  # noqa: BLE001
                if not library_raised(exc):
                    raise
                ctx.violate("unexpected-raise", "final", f"attribute-read:{type(exc).__name__}", f"reading a public attribute of a library object raised {exc!r} in the final observation (faults healed)")
        _restart("all")
        res = {
            "digest": ctx.log.digest(),
            "violations": ctx.violations,
            "known_hits": ctx.known_hits,
            "faults": dict(ctx.faults),
            "probes": dict(ctx.probes),
            "states": sorted(ctx.states),
            "nontrivial": bool(ctx.nontrivial),
            "steps": ctx.n_ops + (ctx.sched_steps if hasattr(ctx, "sched_steps") else 0),
            "n_ops": ctx.n_ops,
        }
        if hasattr(ctx, "schedule"):
            res["schedule"] = ctx.schedule
        return res

    def _execute_threads(self, ctx, spec):
        _run_ops(ctx, "main", spec.get("prelude", []))
        ctx.released_ids.clear()
        threads = spec["threads"]
        sc = simsched.Scheduler(
            len(threads), TRACE_FILES, sched_seed=spec.get("sched_seed"), explicit=spec.get("schedule"),
            p_switch=spec.get("p_switch", 0.02), p_hot=spec.get("p_hot", 0.25), hot_funcs=HOT_FUNCS,
        )
        ctx.sched = sc
        # objects are thread-private (a caller that edits an array another of its threads is reading
        # has a data race of its own); the prelude matters through the caches it leaves behind
        bodies = [(lambda t=t: _run_ops(ctx, f"t{t}", threads[t])) for t in range(len(threads))]
        sc.run(bodies)
        if sc.errors:
            raise RuntimeError(f"thread body failed: {sc.errors}")
        ctx.schedule = sc.explicit_schedule()
        ctx.sched_steps = sc.step
        ctx.log.add("schedule", hash_obj(ctx.schedule))
        ctx.faults.hit("sched:context-switches", len(sc.switches))
        ctx.probes.hit("threads-run")

    def finalise_replay_spec(self, spec, res):
        """Replay files carry the explicit schedule (PRNG-free)."""
        if "threads" in spec and "schedule" in res:
            spec = copy.deepcopy(spec)
            spec["schedule"] = res["schedule"]
        return spec

    # ---- minimisation ------------------------------------------------------------------------------
    def list_paths(self, spec):
        if "threads" in spec:
            paths = [("prelude",)] + [("threads", i) for i in range(len(spec["threads"]))]
            if spec.get("schedule"):
                paths.append(("schedule",))
            return paths
        return [("ops",)]

    def simplify(self, spec):
        """Candidate argument simplifications (each a full spec)."""
        paths = self.list_paths(spec)
        for path in paths:
            if path == ("schedule",):
                continue
            ops = spec
            for p in path:
                ops = ops[p]
            for i, op in enumerate(ops):
                for new in _simpler_ops(op):
                    s2 = copy.deepcopy(spec)
                    tgt = s2
                    for p in path:
                        tgt = tgt[p]
                    tgt[i] = new
                    yield s2
        if "threads" in spec and "schedule" not in spec:
            # pin the schedule so that it can be shrunk
            pass


def _simpler_ops(op):
    k = op[0]
    if k == "ang":
        if op[2] == "size":
            yield ["ang", op[1], "degree", 3, op[4]]
        if not op[4]:
            yield ["ang", op[1], op[2], op[3], True]
    if k == "atom":
        if op[1] != ["zero", 1, 1.0]:
            yield ["atom", ["zero", 1, 1.0], op[2] if len(op[2]) < 2 or len(op[2][1]) == 1 else [op[2][0], op[2][1][:1]], op[3], op[4], op[5]]
            yield ["atom", ["gl", 1, 0.0, 1.0], op[2] if len(op[2]) < 2 or len(op[2][1]) == 1 else [op[2][0], op[2][1][:1]], op[3], op[4], op[5]]
        if op[3] != [0.0, 0.0, 0.0]:
            yield ["atom", op[1], op[2], [0.0, 0.0, 0.0], op[4], op[5]]
        if op[4] != 0:
            yield ["atom", op[1], op[2], op[3], 0, op[5]]
    if k == "edit" and op[3] != "zero":
        yield ["edit", op[1], op[2], "zero"]
    if k in ("shell", "use", "moluse", "edit", "reobserve", "tf_call", "tf_wrap", "tf_wcall", "mol") and op[1] != 0:
        yield [k, 0] + list(op[2:])
    if k == "tf_call" and op[3] != ["range", 2]:
        yield ["tf_call", op[1], op[2], ["range", 2]] + list(op[4:])
    if k == "tf_call" and len(op) > 4 and op[4]:
        yield list(op[:4]) + [0]
    if k == "arm" and (op[4] != 1):
        yield ["arm", op[1], op[2], op[3], 1, op[5]]


def make_engine():
    procstate.snapshot()
    return CacheHistoryEngine()
