"""C20 - library calls never modify what the caller or its callbacks own.

Engine `caller-env`: the simulator owns every buffer, container and callback handed to the library.
A run is a short caller program over a catalogue of public entry points; per operation the run PRNG
picks the memory mode of each argument and the behaviour of each callback, and operations that take
callbacks are re-run with a cancellation injected at *every* callback invocation (up to a cap).
See DESIGN.md section 3 (C20).
"""

from __future__ import annotations

import copy
import hashlib
import itertools
import random

import numpy as np

from simkit import procstate
from simkit.buffers import CB_BEHAVIOURS, MODES, Buf, Container, SimCallback, SimCancel
from simkit.core import Counter, EventLog, Violation, derive_seed, hash_obj
from simkit.rngseam import RngSeam

from .catalogue import CATALOGUE, WEIGHTS

PID = "C20"
ENUM_CAP = 64


class CallEnv:
    """Argument factory for one execution of one catalogue entry."""

    def __init__(self, opts, baseline=False):
        self.opts = opts
        self.baseline = baseline
        self.bufs = {}
        self.conts = {}
        self.cbs = {}
        self.order = []

    # -- arrays ------------------------------------------------------------------------------
    def mode_for(self, name):
        if self.baseline or self.opts.get("plain"):
            return "plain"
        ov = self.opts.get("modes", {}).get(name)
        if ov:
            return ov
        return MODES[derive_seed(self.opts.get("mseed", 0), "mode", name) % len(MODES)]

    def arr(self, name, values, dtype=None):
        if name in self.bufs:
            return self.bufs[name].arr
        v = np.array(values, dtype=dtype) if dtype is not None else np.array(values)
        b = Buf(name, v, self.mode_for(name))
        self.bufs[name] = b
        self.order.append(name)
        return b.arr

    def alias(self, name, other, values, dtype=None):
        """Same array object passed for two parameters (when the aliasing flag of the op is on)."""
        if not self.baseline and self.opts.get("alias") and other in self.bufs:
            return self.bufs[other].arr
        return self.arr(name, values, dtype)

    # -- containers --------------------------------------------------------------------------
    def _cont(self, name, value):
        if name in self.conts:
            return self.conts[name].obj
        tracked = (not self.baseline) and (derive_seed(self.opts.get("mseed", 0), "trk", name) % 3 != 0) and not self.opts.get("plain")
        c = Container(name, value, tracked)
        self.conts[name] = c
        return c.obj

    def lst(self, name, value):
        return self._cont(name, list(value))

    def dct(self, name, value):
        return self._cont(name, dict(value))

    def tup(self, name, value):
        return self._cont(name, tuple(value))

    # -- callbacks ---------------------------------------------------------------------------
    def cb(self, name, fn, identity=False):
        if name in self.cbs:
            return self.cbs[name]
        beh = "fresh"
        if not self.baseline and not self.opts.get("plain"):
            beh = self.opts.get("cbs", {}).get(name) or CB_BEHAVIOURS[derive_seed(self.opts.get("cbseed", 0), "cb", name) % len(CB_BEHAVIOURS)]
            if beh == "alias-arg" and not identity:
                beh = "memo"
        raise_at = None
        ra = self.opts.get("raise")
        if ra is not None and not self.baseline and ra[0] == name:
            raise_at = ra[1]
        c = SimCallback(name, fn, beh, raise_at, identity)
        self.cbs[name] = c
        return c

    # -- checks ------------------------------------------------------------------------------
    def problems(self):
        out = []
        for name, b in self.bufs.items():
            ch = b.changed()
            if ch:
                out.append(("mutated-arg", f"{name}[{b.mode}]", ch))
        for name, c in self.conts.items():
            ch = c.changed()
            if ch:
                out.append(("mutated-container", name, ch))
        for name, c in self.cbs.items():
            ch = c.changed()
            if ch:
                out.append(("mutated-callback-result", f"{name}[{c.behaviour}]", ch))
        return out

    def cb_counts(self):
        return {n: c.calls for n, c in self.cbs.items()}

    def describe(self):
        return {"modes": {n: b.mode for n, b in self.bufs.items()}, "cbs": {n: c.behaviour for n, c in self.cbs.items()},
                "tracked": sorted(n for n, c in self.conts.items() if c.tracked)}


def _outcome(fn):
    try:
        return ("ok", fn())
    except SimCancel as exc:
        return ("cancel", exc)
    except BaseException as exc:  # noqa: BLE001
        if isinstance(exc, (KeyboardInterrupt, SystemExit)) or type(exc).__name__ == "_RunTimeout":
            raise
        # a cancellation wrapped by the library / SciPy still is a cancellation
        e = exc
        for _ in range(6):
            e = e.__cause__ or e.__context__
            if e is None:
                break
            if isinstance(e, SimCancel):
                return ("cancel", exc)
        return ("raise", exc)


class Variant(int):
    """The variant number an entry receives.  Entries pick their options with `p % n` and `(p // a) % n`; with a plain
    integer those picks are coupled whenever the moduli share a factor (p % 2 and p % 6: half of the combinations can
    never occur).  Here every (divisor chain, modulus) pair is an independent pseudo-random digit of the variant number,
    so every combination of options is reachable.  `Variant(0)` keeps all digits at 0 (the minimised form)."""

    def __new__(cls, value, path="p"):
        obj = super().__new__(cls, int(value))
        obj._path = path
        return obj

    def _digit(self, key):
        if int(self) == 0:
            return 0
        return int.from_bytes(hashlib.sha256(f"variant:{int(self)}:{self._path}:{key}".encode()).digest()[:8], "big")

    def __mod__(self, n):
        n = int(n)
        return 0 if int(self) == 0 else self._digit(f"%{n}") % n

    def __floordiv__(self, a):
        v = Variant(int(self), self._path + f"//{int(a)}")
        return v


def _flatten(obs):
    out = []
    if obs is None:
        return out
    if isinstance(obs, (list, tuple)):
        for o in obs:
            out.extend(_flatten(o))
        return out
    if type(obs).__module__.startswith("grid."):
        # a look at every public property of a library object the call handed out (values discarded): a getter is a
        # public operation too and must leave the caller's data alone
        for nm in sorted(n for n in dir(type(obs)) if not n.startswith("_") and isinstance(getattr(type(obs), n, None), property)):
            try:
                getattr(obs, nm)
            except Exception:  # noqa: BLE001
                pass
    if hasattr(obs, "points") and hasattr(obs, "weights"):
        out.append(np.asarray(obs.points, dtype=float))
        out.append(np.asarray(obs.weights, dtype=float))
        return out
    if hasattr(obs, "__next__"):
        obs = list(itertools.islice(obs, 5000))
        return _flatten(obs)
    try:
        out.append(np.asarray(obs, dtype=float))
    except Exception:  # noqa: BLE001
        out.append(np.asarray(float(len(type(obs).__name__)), dtype=float))
    return out


def _same_results(a, b, rtol):
    fa, fb = _flatten(a), _flatten(b)
    if len(fa) != len(fb):
        return False
    for x, y in zip(fa, fb):
        if x.shape != y.shape:
            return False
        nx, ny = np.isnan(x), np.isnan(y)
        if (nx != ny).any():
            return False
        m = ~nx
        if not m.any():
            continue
        scale = max(1.0, float(np.max(np.abs(y[m & np.isfinite(y)]))) if (m & np.isfinite(y)).any() else 1.0)
        with np.errstate(all="ignore"):
            d = np.abs(x[m] - y[m])
            d = np.where(np.isinf(x[m]) & (x[m] == y[m]), 0.0, d)
        if not bool(np.all(d <= rtol * scale)):
            return False
    return True


class Ctx:
    def __init__(self, spec, known):
        self.spec = spec
        self.known = known
        self.log = EventLog()
        self.faults = Counter()
        self.probes = Counter()
        self.states = set()
        self.violations = []
        self.known_hits = []
        self.step = 0
        self.nontrivial = False
        self.rng = RngSeam(None, None)
        self.enum_points = 0

    def violate(self, inv, entry, sig, detail):
        cls = f"{PID}:{inv}:{entry}"
        key = f"{cls}:{sig}"
        if key in self.known:
            self.known_hits.append(key)
            self.log.add(self.step, "known", key)
            return
        self.violations.append(Violation(cls, key, detail, self.step))
        self.log.add(self.step, "VIOLATION", key)


def _run_entry(ctx, entry, opts, baseline):
    """One execution of a catalogue entry in a fresh process state with a fixed RNG stream."""
    procstate.restore()
    ctx.rng.set_behaviour("uniform", 12345)
    env = CallEnv(opts, baseline=baseline)
    fn = CATALOGUE[entry]
    oc = _outcome(lambda: _flatten(fn(env, Variant(opts.get("p", 0)))))  # materialised at once (generators!)
    return env, oc


def _op_call(ctx, op):
    _, entry, opts = op
    if entry not in CATALOGUE:
        ctx.log.add(ctx.step, "call", entry, "unknown-entry")
        return
    tol = 1e-7
    # (1) baseline: plain buffers, fresh callbacks
    env0, oc0 = _run_entry(ctx, entry, opts, baseline=True)
    if oc0[0] != "ok":
        # the catalogue entry itself does not run to completion on this tree: its failure is not a C20
        # matter (counted, skipped) - but whatever it did to the caller's objects before failing is
        for inv, sig, desc in env0.problems():
            ctx.violate(inv, entry, sig.split("[")[0], f"{entry}: {desc} (plain writable buffers, benign callbacks; the call then raised {oc0[1]!r})")
        ctx.probes.hit("baseline-raise:" + entry)
        # ... and the same holds in the simulated environment: an operation that raises must leave everything intact
        o2 = dict(opts)
        o2.pop("raise", None)
        env1, oc1 = _run_entry(ctx, entry, o2, baseline=False)
        d = env1.describe()
        if any(m != "plain" for m in d["modes"].values()) or d["tracked"]:
            ctx.nontrivial = True
        for inv, sig, desc in env1.problems():
            ctx.violate(inv + "-after-raise", entry, sig.split("[")[0], f"{entry}: the call raised {oc1[1]!r:.80} and {desc} (modes {d['modes']})")
        if oc1[0] == "raise" and ("read-only" in str(oc1[1]) or "WRITEABLE" in str(oc1[1])) and "read-only" not in str(oc0[1]):
            ctx.violate("readonly-rejected", entry, type(oc1[1]).__name__, f"{entry}: write-protected input rejected: {oc1[1]!r} (modes {d['modes']})")
        ctx.log.add(ctx.step, "call", entry, "baseline-raise", type(oc0[1]).__name__, oc1[0])
        return
    for inv, sig, desc in env0.problems():
        ctx.violate(inv, entry, sig.split("[")[0], f"{entry}: {desc} (plain writable buffers, benign callbacks)")
    # (2) the simulated caller environment
    o2 = dict(opts)
    o2.pop("raise", None)
    env1, oc1 = _run_entry(ctx, entry, o2, baseline=False)
    d = env1.describe()
    nonplain = any(m != "plain" for m in d["modes"].values()) or any(b != "fresh" for b in d["cbs"].values()) or d["tracked"] or opts.get("alias")
    if nonplain:
        ctx.nontrivial = True
    for m in set(d["modes"].values()):
        ctx.faults.hit("mem:" + m)
    for b in set(d["cbs"].values()):
        ctx.faults.hit("cb:" + b)
    if opts.get("alias"):
        ctx.faults.hit("mem:same-array-twice")
    ctx.states.add(entry + ":" + ",".join(sorted(set(d["modes"].values()) | set(d["cbs"].values()))))
    for inv, sig, desc in env1.problems():
        ctx.violate(inv, entry, sig.split("[")[0], f"{entry}: {desc} (modes {d['modes']}, callbacks {d['cbs']}, alias={bool(opts.get('alias'))})")
    if oc1[0] == "raise":
        exc = oc1[1]
        msg = str(exc)
        if "read-only" in msg or "WRITEABLE" in msg or "readonly" in msg:
            ctx.violate("readonly-rejected", entry, type(exc).__name__, f"{entry}: write-protected input/callback result rejected: {exc!r} (modes {d['modes']}, callbacks {d['cbs']})")
        elif opts.get("alias"):
            # passing the same array twice may be semantically different input for some entries; only mutation is checked
            ctx.log.add(ctx.step, "call", entry, "alias-raise", type(exc).__name__)
        else:
            ctx.violate("env-dependent-failure", entry, type(exc).__name__, f"{entry}: works with plain buffers/benign callbacks but raised {exc!r} with modes {d['modes']}, callbacks {d['cbs']}")
    elif oc1[0] == "ok" and not opts.get("alias"):
        if not _same_results(oc1[1], oc0[1], tol):
            ctx.violate("env-dependent-result", entry, "result", f"{entry}: result differs between plain/benign and modes {d['modes']}, callbacks {d['cbs']} (a callback may return its argument or a cached array without affecting the result)")
    ctx.log.add(ctx.step, "call", entry, oc1[0], hash_obj(_flatten(oc1[1])) if oc1[0] == "ok" else type(oc1[1]).__name__)
    # (3) crash-point enumeration: cancel at every callback invocation
    if opts.get("enum") and env1.cbs:
        counts = env1.cb_counts()
        for cbname in sorted(counts):
            n = counts[cbname]
            ks = list(range(min(n, ENUM_CAP)))
            if n > ENUM_CAP:
                r = random.Random(derive_seed(opts.get("mseed", 0), "enum", cbname))
                ks += sorted(r.sample(range(ENUM_CAP, n), min(8, n - ENUM_CAP)))
            for k in ks:
                o3 = dict(o2)
                o3["raise"] = [cbname, k]
                env2, oc2 = _run_entry(ctx, entry, o3, baseline=False)
                ctx.enum_points += 1
                ctx.faults.hit("cancel@callback")
                if oc2[0] == "cancel":
                    ctx.probes.hit("cancel-propagated")
                elif oc2[0] == "ok":
                    ctx.probes.hit("cancel-not-reached-or-swallowed")
                else:
                    ctx.probes.hit("cancel-other-exception")
                for inv, sig, desc in env2.problems():
                    ctx.violate(inv + "-after-cancel", entry, sig.split("[")[0], f"{entry}: after cancellation at {cbname}@{k}: {desc} (modes {env2.describe()['modes']})")
            ctx.log.add(ctx.step, "enum", entry, cbname, n)
        # after cancellations the same call must still give the baseline answer (no poisoned state)
        env3, oc3 = _run_entry_no_restore(ctx, entry, o2)
        if oc3[0] != "ok" or not _same_results(oc3[1], oc0[1], tol):
            ctx.violate("poisoned-after-cancel", entry, "result", f"{entry}: after cancelled attempts the call no longer gives the original answer ({oc3[0]})")


def _run_entry_no_restore(ctx, entry, opts):
    ctx.rng.set_behaviour("uniform", 12345)
    env = CallEnv(opts, baseline=True)
    fn = CATALOGUE[entry]
    return env, _outcome(lambda: _flatten(fn(env, Variant(opts.get("p", 0)))))


class CallerEnvEngine:
    NAME = "caller-env"
    RUN_TIMEOUT_S = 600
    LEVEL = "fault_enumeration"
    RULE = (
        "one run = a caller program of 3-12 catalogue operations (public entry points); per operation the PRNG picks each argument's memory "
        "mode (plain, read-only, view inside a canaried buffer, strided, Fortran order, read-only variants), container tracking, same-array-twice "
        "aliasing and each callback's return behaviour (fresh, its own argument, memoised array, read-only, guarded view); operations with "
        "callbacks are additionally re-run with a cancellation injected at every callback invocation k <= 64 (plus a sample beyond). "
        "non-trivial = at least one operation ran with a non-default mode/behaviour; distinct = distinct run digests"
    )
    STATE_MEASURE = "set of (entry point, set of memory modes and callback behaviours used) combinations reached"
    COMPONENTS = {
        "real": ["the public surface of grid driven through engines/catalogue.py (grids, transforms, atomic/molecular grids, Becke/Hirshfeld, cubic, periodic, "
                 "multi-domain, ODE and Poisson solvers, Coulomb, utils)", "scipy.integrate.solve_bvp/solve_ivp calling back into simulator callbacks"],
        "stub": ["caller buffers (allocation, protection, layout, canaries)", "caller containers (tracked list/dict)", "caller callbacks (return object, cancellation)", "global NumPy RNG source (fixed stream so runs are comparable)"],
    }
    ASSUMPTIONS = [
        "baseline (plain buffers, benign callbacks) defines the expected numerical result; a catalogue entry whose baseline raises is skipped and counted",
        "results are compared to relative 1e-7 of the result scale (solver tolerances, BLAS path differences for strided input)",
        "the catalogue is finite: 'all public functions' is covered as far as engines/catalogue.py lists them",
        "cancellation points are callback invocations; enumeration is complete up to 64 invocations per callback and sampled beyond",
    ]

    def submodes(self, tier):
        if tier == "quick":
            return [("program", 900), ("program-enum", 180)]
        return [("program", 120000), ("program-enum", 20000)]

    def determinism_sample(self, tier):
        return 24 if tier == "quick" else 256

    def minimise_budget(self, tier):
        return (300, 120.0)

    def max_reported_classes(self):
        return 5

    def generate(self, seed, submode):
        rng = random.Random(seed)
        names = sorted(CATALOGUE)
        # swarm: a random subset of the catalogue per run
        subset = [n for n in names if rng.random() < 0.5] or names
        w = [WEIGHTS.get(n, 1.0) for n in subset]
        ops = []
        for _ in range(rng.randint(3, 12)):
            e = rng.choices(subset, weights=w)[0]
            opts = {"mseed": rng.randrange(10**9), "cbseed": rng.randrange(10**9), "alias": rng.random() < 0.2, "p": rng.randrange(100000)}
            if submode == "program-enum":
                opts["enum"] = True
            ops.append(["call", e, opts])
        if submode == "program-enum":
            # make sure callback-taking entries are present
            cbe = [n for n in names if n.startswith(("ode_", "poisson_", "multidomain", "molgrid_callable", "robust"))]
            for i in range(min(2, len(ops))):
                ops[i][1] = rng.choice(cbe)
        return {"engine": self.NAME, "seed": seed, "submode": submode, "cfg": {}, "ops": ops}

    def execute(self, spec, known_keys):
        ctx = Ctx(spec, known_keys)
        np.seterr(all="ignore")
        with ctx.rng:
            for op in spec["ops"]:
                ctx.step += 1
                if op[0] == "call":
                    _op_call(ctx, op)
        procstate.restore()
        return {
            "digest": ctx.log.digest(), "violations": ctx.violations, "known_hits": ctx.known_hits, "faults": dict(ctx.faults),
            "probes": dict(ctx.probes), "states": sorted(ctx.states), "nontrivial": bool(ctx.nontrivial),
            "steps": len(spec["ops"]) + ctx.enum_points, "n_ops": len(spec["ops"]), "enum_points": ctx.enum_points,
        }

    def extra_coverage(self, results):
        return {"cancellation_points_enumerated": sum(r.get("enum_points", 0) for r in results), "catalogue_entries": len(CATALOGUE)}

    def list_paths(self, spec):
        return [("ops",)]

    def simplify(self, spec):
        for i, op in enumerate(spec["ops"]):
            o = op[2]
            if o.get("enum"):
                s2 = copy.deepcopy(spec)
                s2["ops"][i][2]["enum"] = False
                yield s2
            if o.get("alias"):
                s2 = copy.deepcopy(spec)
                s2["ops"][i][2]["alias"] = False
                yield s2
            if not o.get("plain"):
                s2 = copy.deepcopy(spec)
                s2["ops"][i][2]["plain"] = True
                yield s2
            if o.get("p"):
                s2 = copy.deepcopy(spec)
                s2["ops"][i][2]["p"] = 0
                yield s2


def _reentrant_library_use():
    """What a re-entrant user callback does: ordinary, unrelated library calls while an outer call is in progress."""
    from grid.angular import AngularGrid
    from grid.basegrid import Grid
    from grid.coulomb import coulomb_gaussian_s
    from grid.rtransform import BeckeRTransform

    AngularGrid(degree=5)
    BeckeRTransform(0.1, 1.2).transform(np.linspace(-0.5, 0.5, 5))
    coulomb_gaussian_s(np.array([0.0, 0.5, 2.0]), 1.1)
    g = Grid(np.linspace(0, 1, 6).reshape(3, 2), np.ones(3))
    g.integrate(np.ones(3))
    g.get_localgrid(np.zeros(2), 0.7)


SimCallback.side_effect = staticmethod(_reentrant_library_use)


def make_engine():
    procstate.snapshot()
    return CallerEnvEngine()
