"""Entry point (kept outside the package so no module is ever loaded twice)."""
import os
import sys

ROOT = os.environ.get("VERIF_ROOT") or os.path.dirname(os.path.dirname(os.path.abspath(__file__)))
if ROOT not in sys.path:
    sys.path.insert(0, ROOT)
src = os.environ.get("GRID_SRC", "/repo/src")
if src not in sys.path:
    sys.path.insert(0, src)

from simkit.cli import main  # noqa: E402

if __name__ == "__main__":
    sys.exit(main())
