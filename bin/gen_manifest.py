#!/venv/bin/python
"""Regenerate /verif/MANIFEST.json from the tables below (keeps commands, levels and N/A reasons in one place)."""
import json
import os

ROOT = os.path.dirname(os.path.dirname(os.path.abspath(__file__)))

CLAIMED = {
    "C19": {
        "engine": "cache-history",
        "category": "exploration",
        "technique": "deterministic simulation: seeded search over API-call histories, cache restarts, in-place edits, store faults and scheduled caller threads against a pristine-data reference model",
        "text": "Seeded search over call histories (sequential, and 2-3 caller threads whose every pre-emption is chosen by the simulator) "
        "against a fault-injecting package-data store; every returned angular/atomic/molecular grid, transform result and Coulomb table "
        "is compared with a reference model built from the shipped data files and closed forms. Sampling, not proof: the property "
        "quantifies over unbounded histories, so exploration with minimised replayable counterexamples is the honest level.",
        "design_ref": "DESIGN.md section 3 (C19)",
        "note": "Trusts: shipped data files as reference; grid.angular degree tables as constants; NumPy/SciPy/zipfile; pre-emption only at Python line "
        "boundaries in angular.py/coulomb.py/atomgrid.py. Determinism of the simulator is self-tested on every run (same seed twice, "
        "two worker counts, fresh interpreter under another PYTHONHASHSEED). Histories also contain: option variants of every atomic-grid method, a look at all "
        "public properties, held interpolating functions, molecular grids assembled from live atomic grids, default (library-made) radial grids, inverse wrappers "
        "around scale-inferring transforms, caller work buffers, object-address reuse for atomic and radial grids, lru_cache wrappers as process state, "
        "block/chunk-size constants shrunk per run (DESIGN.md sections 2, 10).",
        "quick_timeout": 1800,
        "thorough_timeout": 14400,
    },
    "C10": {
        "engine": "grid-history",
        "category": "exploration",
        "technique": "deterministic simulation: seeded search over histories of queries, points/weights reassignments, rejected calls and selections on live grid objects, checked step by step against a brute-force reference model",
        "text": "Seeded search over operation histories on live grid objects of 11 kinds (plain 1-3D, 1-D with domain, Gauss rule, atomic, molecular, uniform, tensor, "
        "periodic, nested local grids): every local grid is checked against brute-force distances on the grid's current public points/weights, every "
        "selection against NumPy indexing of the same. The state under test is the lazily built, reused neighbour tree; which bug shows depends on the "
        "order query/reassign/failed call/query, so the deciding step is a search over sequences with minimised replayable counterexamples. Sampling, not proof.",
        "design_ref": "DESIGN.md section 3 (C10)",
        "note": "Trusts NumPy and brute-force distance arithmetic; boundary ties within 1e-9*max(1,r) of the radius are don't-care (except exact zero distance); "
        "the input space of centres/radii/index kinds is only covered as far as the histories generate it.",
        "quick_timeout": 1800,
        "thorough_timeout": 14400,
    },
    "C20": {
        "engine": "caller-env",
        "category": "fault_enumeration",
        "technique": "deterministic simulation of the caller: simulator-owned buffers (protection/layout/aliasing modes, canaries), tracked containers and callbacks (return-object behaviours), with a cancellation fault enumerated at every callback invocation",
        "text": "The simulator owns every array, list, dict and callback handed to the library. Seeded caller programs over a catalogue of public entry points choose, "
        "per argument, the memory mode (read-only, view in a canaried buffer, strided, Fortran, same array twice) and per callback the returned object (fresh, its own "
        "argument, memoised, read-only, guarded view); everything is byte-snapshotted before and compared after the call returns or raises, and results must equal the "
        "plain/benign baseline. For operations with callbacks a cancellation is injected at every callback invocation up to 64 (sampled beyond): that part is an "
        "enumeration of crash points, the rest is seeded sampling of caller programs.",
        "design_ref": "DESIGN.md section 3 (C20)",
        "note": "Trusts the byte snapshots (sha256) and the finite catalogue in engines/catalogue.py (about 40 entry groups incl. object lifecycles and operations that raise by design) as the meaning of 'public operations'; result equivalence to relative 1e-7; "
        "transient container mutations that are undone before return are allowed (probe only).",
        "quick_timeout": 2400,
        "thorough_timeout": 21600,
    },
    "C15": {
        "engine": "rng-seam-ode",
        "category": "exploration",
        "technique": "deterministic simulation of the hidden nondeterminism source: the process-global NumPy RNG behind solve_ode_bvp's default guess is served by the simulator (adversarial legal draws, prior-history perturbation, exact repeats) over manufactured ODE problems with known solutions",
        "text": "NARROW SCOPE. C15 quantifies over all ODEs, boundary data and transforms - an input space this technique does not decide. What simulation decides is the clause the "
        "property silently contains: solve_ode_bvp draws its default initial guess from the process-global RNG, so the result must be the solution for every admissible draw "
        "(incl. all-zero, all-(1-eps), alternating, spike, ramp), for every prior RNG history, with a transform object shared between solves, and equal draws must give "
        "bit-equal output. Manufactured ODE problems (order 1-3, 11 transform families, admitted by an independent reference solve) are the workload that makes the seam "
        "observable; a wrong coefficient transformation trips the accuracy oracle as a by-product (it found HandyModRTransform.deriv3), but coverage of the ODE space is sampling.",
        "design_ref": "DESIGN.md section 3 (C15)",
        "note": "Accuracy envelope 5000*tol*scale calibrated on this tree (max seen 292*tol over 8400 runs of the final workload, 17x margin); increasing maps only; HyperbolicRTransform excluded (its validity depends on array length); "
        "a 'did not converge' error is retried at a 100x / 10^4 x looser tolerance before it counts; IVP solves run in the same histories with a loose envelope but the IVP clauses are not claimed as decided. "
        "Beyond the RNG seam the histories also share the caller's input objects between solves, solve through up to three admissible maps, steer object-address reuse, hold and re-evaluate returned solution callables, "
        "use re-entrant callbacks and scale the equation by constants (all added after independently produced breakages were missed, DESIGN.md section 10).",
        "quick_timeout": 1800,
        "thorough_timeout": 14400,
    },
    "C16": {
        "engine": "rng-seam-poisson",
        "category": "exploration",
        "technique": "deterministic simulation of the hidden RNG behind every radial Poisson solve and of the data store behind the robust solver's Coulomb table, over histories of solves on one shared grid object and one shared options dict",
        "text": "NARROW SCOPE. C16 quantifies over densities, grids and options - an input space this technique does not decide. Decided by simulation: every (l,m) radial solve of "
        "solve_poisson_bvp / solve_poisson_robust starts from the process-global RNG, so accuracy, linearity V[a*rho1+b*rho2]=a*V[rho1]+b*V[rho2] and the robust solver's "
        "exact-core identity must hold when each solve gets a different, adversarial draw and an arbitrary prior RNG history; and histories on shared state - one AtomGrid "
        "object (lazy harmonic basis) and a second one of the same size, one options dict reused by BVP and IVP calls, the lazily loaded Coulomb table hit by a store "
        "fault on first use and then retried - must not change a later potential. Densities (on-centre s- and p-type Gaussians inside the resolution envelope) are workload.",
        "design_ref": "DESIGN.md section 3 (C16)",
        "note": "Bounds calibrated on this tree: accuracy 5e-3 (2e-2 without the origin node; seen 7e-5 / 2.4e-3), spread between draws max(1e-8, 0.5*tol) (seen up to 0.08*tol in the exact-core case on linearly mapped grids), linearity 5*tol (seen 0.06*tol), exact core 1e-6 (seen 2.2e-8 over all grid families). "
        "Multi-centre molecular grids (2-3 atoms, each with its own radial size, degree and rotation; densities on the nuclei; the atoms also listed in the opposite order) are a separate submode: accuracy 3e-2 (seen 5.6e-3), "
        "exact core of the summed core models 1e-6 (seen 2e-10). Off-centre densities on an atomic grid are outside the sampled envelope; one-atom molecular grids, solver options (boundary / include_origin / remove_large_pts), p-type components along x/y/z/generic "
        "directions, caller-edited parameter arrays and held potential functions are inside it.",
        "quick_timeout": 2400,
        "thorough_timeout": 21600,
    },
}

PLANNED = {
}

NOT_APPLICABLE = {
    "C01": "pure function of (rule, n, parameters): closed-form constructors with no state, I/O, clock, randomness or interleaving; an input-space question, not a simulation target",
    "C02": "finite enumeration over shipped data files; no schedule, fault or history enters the statement (cache/load histories are decided under C19)",
    "C03": "analytic identities per transform parameter set; pure functions of inputs (the one stateful bit, the inferred scale b, is decided under C19)",
    "C04": "transform_1d_grid is a pure map of (grid, transform) to a grid; nothing for a scheduler or fault injector to act on",
    "C05": "pure construction from (radial grid, degrees, centre, seed); only the 'reproducible from the seed' clause meets a nondeterminism source and that clause is checked inside C19's model (rotation independent of global RNG history) without claiming C05",
    "C06": "pure array arithmetic; internal chunking is a deterministic function of array sizes, not a schedule",
    "C07": "pure concatenation of atomic grids; store on/off is a configuration, not a history or fault",
    "C08": "pure special-function evaluation over angles; no state",
    "C09": "pure given the grid; the lazily cached harmonic basis depends only on immutable grid data and is exercised inside C19 histories, not claimed",
    "C11": "stated over inputs/configurations only (lattice-image enumeration is integer arithmetic on the arguments); the history clause for local grids lives in C10",
    "C12": "table lookup and bisection over ~115 000 integer requests: completely enumerable without a simulator; no schedule/fault/history dimension",
    "C13": "pure index arithmetic and interpolation; the only I/O is the cube-file round trip and the property states the fault-free round trip only, so injecting write faults would demand more than it says",
    "C14": "pure einsum bookkeeping over (grid, centres, orders); no state",
    "C17": "closed-form formulas of (r, alpha); the lazy parameter table's load/retry/restart behaviour is decided under C19",
    "C18": "generators advance in lock-step deterministically; chunk size is an argument, not a schedule",
}


def check_entry(pid, c):
    return {
        "property_id": pid,
        "engine": c["engine"],
        "quick_cmd": f"timeout {c['quick_timeout']} ./bin/check {pid} --tier quick",
        "thorough_cmd": f"timeout {c['thorough_timeout']} ./bin/check {pid} --tier thorough",
        "evidence_file": f"/verif/evidence/{pid}.json",
        "replay_cmd_template": f"./bin/check {pid} --replay {{path}}",
        "level_claimed": {"category": c["category"], "text": c["text"], "design_ref": c["design_ref"]},
        "level_note": c["note"],
        "technique": c["technique"],
    }


def main():
    na = dict(NOT_APPLICABLE)
    for k, v in PLANNED.items():
        if k not in CLAIMED:
            na[k] = v
    doc = {
        "version": 1,
        "setup_cmd": "./bin/setup",
        "hooks": {
            "guard": "GRID_VERIF",
            "enable": "no source hook exists: every seam is a module-level name or a caller-supplied object patched by the harness at run time (bin/check exports GRID_VERIF=1 for completeness)",
            "baseline_off_cmd": "cd /repo && env -u GRID_VERIF /venv/bin/python -m pytest -ra -q -p no:cacheprovider --timeout=900 --continue-on-collection-errors",
            "source_commits": [],
            "add_only": True,
        },
        "engines": [
            {"name": "cache-history", "path": "engines/cache_history.py", "serves_properties": ["C19"], "kind_free_text": "deterministic simulation of call histories + store faults + scheduled caller threads"},
            {"name": "caller-env", "path": "engines/caller_env.py", "serves_properties": ["C20"], "kind_free_text": "deterministic simulation of caller memory and callbacks with enumerated cancellation points"},
            {"name": "rng-seam-ode", "path": "engines/rng_seam.py", "serves_properties": ["C15"], "kind_free_text": "deterministic simulation of the global-RNG seam behind the BVP solver's default guess"},
            {"name": "rng-seam-poisson", "path": "engines/poisson_seam.py", "serves_properties": ["C16"], "kind_free_text": "deterministic simulation of the global-RNG seam and the Coulomb-table store seam behind the Poisson solvers"},
            {"name": "grid-history", "path": "engines/grid_history.py", "serves_properties": ["C10"], "kind_free_text": "deterministic simulation of query/reassignment/selection histories on live grid objects"},
        ],
        "checks": [check_entry(pid, CLAIMED[pid]) for pid in sorted(CLAIMED)],
        "not_applicable": [{"property_id": k, "reason": na[k]} for k in sorted(na)],
        "notes": "Technique family: deterministic simulation with fault injection. Fix commits in /repo are listed in known_findings.json (status fixed).",
    }
    with open(os.path.join(ROOT, "MANIFEST.json"), "w") as fh:
        json.dump(doc, fh, indent=1)
        fh.write("\n")
    try:
        import jsonschema

        jsonschema.validate(doc, json.load(open("/root/.vp/MANIFEST.schema.json")))
        print("MANIFEST.json valid")
    except ImportError:
        print("MANIFEST.json written (jsonschema unavailable)")


if __name__ == "__main__":
    main()
